(** Proofs about [model/PadHist.v] (C05): every output of every history is [pad] of the
    padding in force, resolved against the terminal size in force, around the bare frame. *)
From Coq Require Import List ZArith Bool Lia.
Import ListNotations.
From TI Require Import lib.Term lib.TermFacts lib.Rect lib.RectCheck lib.Lines model.Padding model.PadTie
     model.PadHist proofs.PadProofs.
Open Scope Z_scope.
Local Arguments Z.eqb : simpl never.
Local Arguments Z.ltb : simpl never.
Local Arguments Z.leb : simpl never.
Local Arguments Z.div : simpl never.
Local Arguments Z.mul : simpl never.
Local Arguments Nat.modulo : simpl never.
Local Arguments Nat.ltb : simpl never.

(** ** dimensions *)

Lemma abs_resolve_dims k tw th w h :
  abs_dims (resolve_kind tw th k) w h = kind_dims k tw th w h.
Proof.
  destruct k as [W H ha va|l t r b|W H ha va]; cbn [resolve_kind kind_dims abs_dims].
  - destruct (resolve tw th W H); reflexivity.
  - reflexivity.
  - destruct (old_resolve tw th W H); reflexivity.
Qed.

Lemma kind_valid_resolve k tw th : kind_valid (resolve_kind tw th k) = kind_valid k.
Proof.
  destruct k as [W H ha va|l t r b|W H ha va]; cbn [resolve_kind];
    try destruct (resolve tw th W H); try destruct (old_resolve tw th W H); reflexivity.
Qed.

Lemma old_dims_nonneg W H ha va w h :
  let '(l, t, r, b) := old_dims W H ha va w h in 0 <= l /\ 0 <= t /\ 0 <= r /\ 0 <= b.
Proof.
  unfold old_dims.
  assert (A : forall M al x,
             let '(a, b) := (if x <? M then match al with
                             | O => (0, M - x)
                             | S (S O) => (M - x, 0)
                             | _ => ((M - x) / 2, M - x - (M - x) / 2)
                             end else (0, 0)) in 0 <= a /\ 0 <= b).
  { intros M al x. destruct (x <? M) eqn:E; [|lia]. apply Z.ltb_lt in E.
    destruct al as [|[|[|al]]]; lia. }
  pose proof (A W ha w) as A1. pose proof (A H va h) as A2.
  destruct (if w <? W then _ else _) as [l r]. destruct (if h <? H then _ else _) as [t b]. lia.
Qed.

Lemma abs_dims_nonneg k w h : kind_valid k = true ->
  let '(l, t, r, b) := abs_dims k w h in 0 <= l /\ 0 <= t /\ 0 <= r /\ 0 <= b.
Proof.
  destruct k as [W H ha va|l t r b|W H ha va]; cbn [abs_dims kind_valid]; intros V.
  - pose proof (aligned_dims_spec W H ha va w h) as S.
    destruct (aligned_dims W H ha va w h) as [[[l t] r] b]. tauto.
  - unfold exact_valid in V. rewrite !andb_true_iff, !Z.leb_le in V. lia.
  - apply old_dims_nonneg.
Qed.

Lemma kind_dims_nonneg k tw th w h : kind_valid k = true ->
  let '(l, t, r, b) := kind_dims k tw th w h in 0 <= l /\ 0 <= t /\ 0 <= r /\ 0 <= b.
Proof.
  intros V. rewrite <- abs_resolve_dims. apply abs_dims_nonneg. rewrite kind_valid_resolve. exact V.
Qed.

Lemma kind_padded_size_is k w h : kind_padded_size k w h = padded_size (abs_dims k w h) w h.
Proof.
  destruct k; cbn [kind_padded_size abs_dims]; try reflexivity.
  symmetry. apply padded_size_agrees.
Qed.

Lemma size_eqb_eq a b : size_eqb a b = true <-> a = b.
Proof.
  destruct a, b. unfold size_eqb. cbn [fst snd]. rewrite andb_true_iff, !Z.eqb_eq.
  split; [intros [-> ->]; reflexivity|intros E; inversion E; auto].
Qed.

(** the iterator's gate [_padded_size != frame.render_size] only skips a [pad] that is
    the identity *)
Lemma gate_identity fill k w h R : kind_valid k = true ->
  size_eqb (kind_padded_size k w h) (w, h) = true ->
  pad fill (abs_dims k w h) w R = R.
Proof.
  intros V E. apply size_eqb_eq in E. rewrite kind_padded_size_is in E.
  pose proof (abs_dims_nonneg k w h V) as NN.
  destruct (abs_dims k w h) as [[[l t] r] b]. unfold padded_size in E. inversion E.
  assert (l = 0) by lia. assert (r = 0) by lia. assert (t = 0) by lia. assert (b = 0) by lia.
  subst. reflexivity.
Qed.

(** ** the cache *)

Lemma nth_error_upd_same {A} (l : list A) n x y :
  nth_error (upd l n x) n = Some y -> y = x.
Proof.
  revert n; induction l as [|a l IH]; intros [|n]; cbn; intros E; try discriminate.
  - congruence.
  - eauto.
Qed.

Lemma nth_error_upd_other {A} (l : list A) n m x : n <> m ->
  nth_error (upd l n x) m = nth_error l m.
Proof.
  revert n m; induction l as [|a l IH]; intros [|n] [|m] Hne; cbn; try reflexivity; try congruence.
  apply IH. congruence.
Qed.

Lemma nth_error_repeat_none {A} (n k : nat) (x : A) :
  nth_error (repeat (@None A) n) k = Some (Some x) -> False.
Proof.
  revert k; induction n as [|n IH]; intros [|k]; cbn; try discriminate. apply IH.
Qed.

Section Hist.
Variable bare : nat -> Z -> Z -> list tok.
Variable N : nat.
Variable t0 s0 : Z * Z.
Variable p0 : padspec.

Definition cache_ok (c : list (option (Z * Z * list tok))) : Prop :=
  forall k cw ch R, nth_error c k = Some (Some (cw, ch, R)) -> R = bare k cw ch.

(** the state of the code after the history [rpre] holds exactly what the history says
    is in force *)
Record Inv (rpre : list hstep) (st : hstate) : Prop := {
  inv_term : (s_tw st, s_th st) = term_of t0 rpre;
  inv_size : (s_w st, s_h st) = size_of s0 rpre;
  inv_pad : s_pad st =
            {| ps_kind := resolve_kind (fst (snd (padding_of t0 p0 rpre))) (snd (snd (padding_of t0 p0 rpre)))
                                       (ps_kind (fst (padding_of t0 p0 rpre)));
               ps_fill := ps_fill (fst (padding_of t0 p0 rpre)) |};
  inv_valid : kind_valid (ps_kind (fst (padding_of t0 p0 rpre))) = true;
  inv_psize : s_psize st = kind_padded_size (ps_kind (s_pad st)) (s_w st) (s_h st);
  inv_pos : s_pos st = pos_of N rpre;
  inv_cache : cache_ok (s_cache st)
}.

Lemma fetch_bare st : cache_ok (s_cache st) -> fetch bare st = bare (s_pos st) (s_w st) (s_h st).
Proof.
  intros C. unfold fetch.
  destruct (nth_error (s_cache st) (s_pos st)) as [[[[cw ch] R]|]|] eqn:E; try reflexivity.
  destruct (size_eqb (cw, ch) (s_w st, s_h st)) eqn:S; [|reflexivity].
  apply size_eqb_eq in S. inversion S; subst. exact (C _ _ _ _ E).
Qed.

Lemma emit_spec rpre st : Inv rpre st ->
  fst (emit bare N st) = render_descr bare (descr_next N t0 s0 p0 rpre)
  /\ Inv (HNext :: rpre) (snd (emit bare N st)).
Proof.
  intros I. destruct I as [It Is Ip Iv Ips Ipos Ic].
  unfold emit. cbn [fst snd]. rewrite (fetch_bare st Ic).
  split.
  - unfold descr_next, render_descr.
    destruct (padding_of t0 p0 rpre) as [p [tw th]] eqn:EP. cbn [fst snd] in *.
    rewrite <- Is, <- Ipos. cbn [d_fill d_dims d_w d_h d_k].
    rewrite <- abs_resolve_dims.
    assert (K : ps_kind (s_pad st) = resolve_kind tw th (ps_kind p)) by (rewrite Ip; reflexivity).
    assert (F : ps_fill (s_pad st) = ps_fill p) by (rewrite Ip; reflexivity).
    rewrite <- K, <- F.
    destruct (size_eqb (s_psize st) (s_w st, s_h st)) eqn:G; [|reflexivity].
    rewrite Ips in G. symmetry. apply gate_identity; [|exact G].
    rewrite K, kind_valid_resolve. exact Iv.
  - constructor; cbn [s_tw s_th s_w s_h s_pad s_psize s_pos s_cache term_of size_of padding_of pos_of];
      try assumption.
    + rewrite Ipos. reflexivity.
    + intros k cw ch R E. destruct (Nat.eq_dec (s_pos st) k) as [<-|Hne].
      * apply nth_error_upd_same in E. inversion E; subst. reflexivity.
      * rewrite nth_error_upd_other in E by exact Hne. exact (Ic _ _ _ _ E).
Qed.

Lemma call_spec rpre st p k w h : Inv rpre st ->
  call bare st p k w h = render_descr bare (descr_call t0 rpre p k w h).
Proof.
  intros I. unfold call, descr_call, render_descr. rewrite <- (inv_term _ _ I).
  cbn [d_fill d_dims d_w d_h d_k]. rewrite abs_resolve_dims. reflexivity.
Qed.

Lemma step_inv rpre st s : Inv rpre st -> step_wf N s = true ->
  Inv (s :: rpre) (snd (step bare N st s)).
Proof.
  intros I W. destruct s as [tw th|p|w h|k| |p k w h]; cbn [step snd].
  - destruct I as [It Is Ip Iv Ips Ipos Ic]. constructor; cbn; try assumption; reflexivity.
  - destruct I as [It Is Ip Iv Ips Ipos Ic].
    constructor; cbn [with_padding s_tw s_th s_w s_h s_pad s_psize s_pos s_cache term_of size_of
                                   padding_of pos_of fst snd ps_kind ps_fill]; try assumption; try reflexivity.
    rewrite <- It. reflexivity.
  - destruct I as [It Is Ip Iv Ips Ipos Ic]. constructor; cbn; try assumption; reflexivity.
  - destruct I as [It Is Ip Iv Ips Ipos Ic]. constructor; cbn; try assumption; reflexivity.
  - destruct (emit bare N st) as [o st'] eqn:E. pose proof (emit_spec rpre st I) as [_ I'].
    rewrite E in I'. exact I'.
  - destruct I as [It Is Ip Iv Ips Ipos Ic]. constructor; cbn; try assumption; reflexivity.
Qed.

Lemma run_from_spec : forall rest rpre st, Inv rpre st -> forallb (step_wf N) rest = true ->
  run_from bare N st rest = map (render_descr bare) (spec_from N t0 s0 p0 rpre rest).
Proof.
  induction rest as [|s rest IH]; intros rpre st I W; [reflexivity|].
  cbn [forallb] in W. apply andb_true_iff in W. destruct W as [Ws W].
  cbn [run_from spec_from]. rewrite map_app.
  pose proof (step_inv rpre st s I Ws) as I'.
  destruct (step bare N st s) as [os st'] eqn:E. cbn [snd] in I'.
  rewrite (IH (s :: rpre) st' I' W). f_equal.
  destruct s as [tw th|p|w h|k| |p k w h]; cbn [step] in E.
  - inversion E; reflexivity.
  - inversion E; reflexivity.
  - inversion E; reflexivity.
  - inversion E; reflexivity.
  - pose proof (emit_spec rpre st I) as [O _]. destruct (emit bare N st) as [o st2].
    inversion E; subst. cbn [fst] in O. cbn [map]. rewrite O. reflexivity.
  - inversion E; subst. cbn [map]. rewrite (call_spec rpre st' p k w h I). reflexivity.
Qed.

End Hist.

Lemma init_inv bare N tw th w h p0 cached : kind_valid (ps_kind p0) = true ->
  Inv bare N (tw, th) (w, h) p0 [] (init_state N tw th w h p0 cached).
Proof.
  intros V. unfold init_state, with_padding.
  constructor; cbn [s_tw s_th s_w s_h s_pad s_psize s_pos s_cache term_of size_of padding_of pos_of
                         fst snd ps_kind ps_fill]; try reflexivity; try assumption.
  intros k cw ch R E. destruct cached.
  - exfalso. exact (nth_error_repeat_none _ _ _ E).
  - destruct k; discriminate.
Qed.

(** MAIN (a): the outputs the code produces along ANY history are, one for one, [pad] with
    the fill and the margins the history says are in force ([spec_descrs]: a function of
    the history before the output alone) around the bare frame — with the frame cache on
    or off. *)
Theorem hist_run_is_spec bare N tw th w h p0 cached steps :
  hist_wf N w h p0 steps = true ->
  run bare N tw th w h p0 cached steps
  = map (render_descr bare) (spec_descrs N tw th w h p0 steps).
Proof.
  unfold hist_wf. rewrite !andb_true_iff. intros [[[[_ _] _] V] W].
  unfold run, spec_descrs. apply run_from_spec; [apply init_inv; exact V|exact W].
Qed.

(** ** the render contract, lifted from [pad_rect] to every output of a history *)

Section Rect.
Variable bare : nat -> Z -> Z -> list tok.
Variable lines : nat -> Z -> Z -> list (list tok).
Variable need : Z -> Z -> bool.
Variable N : nat.
Hypothesis Hbare : forall k w h, 0 < w -> 0 < h ->
  bare k w h = joinlf (lines k w h) /\ LinesRect need w h (lines k w h).

(** what the property demands of an output described by [d] *)
Definition descr_ok (d : descr) : Prop :=
  let '(l, t, r, b) := d_dims d in
  0 <= l /\ 0 <= t /\ 0 <= r /\ 0 <= b
  /\ RectG (need' (d_fill d) need (d_w d) (d_h d) l t) (l + d_w d + r) (t + d_h d + b)
           (render_descr bare d).

Lemma descr_ok_intro fill k tw th w h f : kind_valid k = true -> 0 < w -> 0 < h ->
  descr_ok {| d_fill := fill; d_dims := kind_dims k tw th w h; d_w := w; d_h := h; d_k := f |}.
Proof.
  intros V Hw Hh. unfold descr_ok, render_descr. cbn [d_fill d_dims d_w d_h d_k].
  pose proof (kind_dims_nonneg k tw th w h V) as NN.
  destruct (kind_dims k tw th w h) as [[[l t] r] b]. destruct NN as (A & B & C & D).
  split; [exact A|]. split; [exact B|]. split; [exact C|]. split; [exact D|].
  destruct (Hbare f w h Hw Hh) as [-> LR]. apply pad_rect; assumption.
Qed.

Variable t0 s0 : Z * Z.
Variable p0 : padspec.

Definition PreOK (rpre : list hstep) : Prop :=
  0 < fst (size_of s0 rpre) /\ 0 < snd (size_of s0 rpre)
  /\ kind_valid (ps_kind (fst (padding_of t0 p0 rpre))) = true.

Lemma preok_step rpre s : PreOK rpre -> step_wf N s = true -> PreOK (s :: rpre).
Proof.
  intros (A & B & C) W. unfold PreOK.
  destruct s as [tw th|p|w h|k| |p k w h]; cbn [size_of padding_of fst snd]; auto.
  cbn [step_wf] in W. rewrite andb_true_iff, !Z.ltb_lt in W. tauto.
Qed.

Lemma spec_from_ok : forall rest rpre, PreOK rpre -> forallb (step_wf N) rest = true ->
  Forall descr_ok (spec_from N t0 s0 p0 rpre rest).
Proof.
  induction rest as [|s rest IH]; intros rpre P W; [constructor|].
  cbn [forallb] in W. apply andb_true_iff in W. destruct W as [Ws W].
  cbn [spec_from]. apply Forall_app. split; [|apply IH; [apply preok_step; assumption|exact W]].
  destruct P as (A & B & C).
  destruct s as [tw th|p|w h|k| |p k w h]; try constructor; try constructor.
  - unfold descr_next. destruct (padding_of t0 p0 rpre) as [p [tw th]]. cbn [fst] in C.
    destruct (size_of s0 rpre) as [w h]. cbn [fst snd] in A, B.
    apply descr_ok_intro; assumption.
  - unfold descr_call. destruct (term_of t0 rpre) as [tw th].
    cbn [step_wf] in Ws. rewrite !andb_true_iff, !Z.ltb_lt in Ws.
    apply descr_ok_intro; tauto.
Qed.

End Rect.

(** MAIN (b): whatever the history, every output meets the render contract on exactly the
    box [(l + w + r) x (t + h + b)] of the padding in force (lifting [pad_rect]) *)
Theorem hist_outputs_rect bare lines need N tw th w h p0 steps :
  (forall k w h, 0 < w -> 0 < h ->
     bare k w h = joinlf (lines k w h) /\ LinesRect need w h (lines k w h)) ->
  hist_wf N w h p0 steps = true ->
  Forall (descr_ok bare need) (spec_descrs N tw th w h p0 steps).
Proof.
  intros Hb. unfold hist_wf. rewrite !andb_true_iff, !Z.ltb_lt. intros [[[[_ Hw] Hh] V] W].
  unfold spec_descrs. eapply spec_from_ok; eauto.
  unfold PreOK. cbn [size_of padding_of fst snd]. auto.
Qed.

(** the two together, as one statement about the code's outputs *)
Theorem hist_main bare lines need N tw th w h p0 cached steps :
  (forall k w h, 0 < w -> 0 < h ->
     bare k w h = joinlf (lines k w h) /\ LinesRect need w h (lines k w h)) ->
  hist_wf N w h p0 steps = true ->
  run bare N tw th w h p0 cached steps = map (render_descr bare) (spec_descrs N tw th w h p0 steps)
  /\ Forall (descr_ok bare need) (spec_descrs N tw th w h p0 steps).
Proof.
  intros Hb W. split; [apply hist_run_is_spec; exact W|eapply hist_outputs_rect; eauto].
Qed.

(** what [spec_descrs] says, spelled out for the two kinds of output (so that the
    statement can be read without unfolding the definitions): *)
Lemma descr_next_reads N t0 s0 p0 rpre :
  let p := fst (padding_of t0 p0 rpre) in
  let tt := snd (padding_of t0 p0 rpre) in
  let sz := size_of s0 rpre in
  descr_next N t0 s0 p0 rpre =
  {| d_fill := ps_fill p; d_dims := kind_dims (ps_kind p) (fst tt) (snd tt) (fst sz) (snd sz);
     d_w := fst sz; d_h := snd sz; d_k := pos_of N rpre |}.
Proof.
  unfold descr_next. destruct (padding_of t0 p0 rpre) as [p [tw th]].
  destruct (size_of s0 rpre) as [w h]. reflexivity.
Qed.

Lemma descr_call_reads t0 rpre p k w h :
  descr_call t0 rpre p k w h =
  {| d_fill := ps_fill p;
     d_dims := kind_dims (ps_kind p) (fst (term_of t0 rpre)) (snd (term_of t0 rpre)) w h;
     d_w := w; d_h := h; d_k := k |}.
Proof. unfold descr_call. destruct (term_of t0 rpre) as [tw th]. reflexivity. Qed.

(** a relative per-call padding after a resize resolves to [max (terminal + d) 1] of the
    NEW terminal size *)
Lemma call_after_resize t0 rpre tw th W H ha va fill k w h :
  relative W H = true ->
  d_dims (descr_call t0 (HResize tw th :: rpre) {| ps_kind := PAligned W H ha va; ps_fill := fill |} k w h)
  = aligned_dims (if W <=? 0 then Z.max (tw + W) 1 else W) (if H <=? 0 then Z.max (th + H) 1 else H)
                 ha va w h.
Proof.
  intros R. rewrite descr_call_reads. cbn [d_dims term_of fst snd kind_dims ps_kind].
  rewrite (proj1 (resolve_spec tw th W H)). reflexivity.
Qed.

(** ** non-vacuity and discrimination, on a concrete renderable *)

(** frame [k] at size [(w, h)]: [h] lines of [w] copies of the digit [k] *)
Definition ex_lines (k : nat) (w h : Z) : list (list tok) :=
  repeat (glyphs false (GOther (48 + Z.of_nat k)) (Z.to_nat w)) (Z.to_nat h).
Definition ex_bare (k : nat) (w h : Z) : list tok := joinlf (ex_lines k w h).

Definition al (W H : Z) (ha va : nat) (fill : option glyph) : padspec :=
  {| ps_kind := PAligned W H ha va; ps_fill := fill |}.

(** two loops over two cached frames; between the loops the padding changes to another
    padding of the SAME padded size (other alignment), later to another fill *)
Definition ex_iter : list hstep :=
  [HNext; HNext; HSetPadding (al 6 4 2 2 (Some GSpace)); HNext; HNext;
   HSetPadding (al 6 4 2 2 None); HSeek 0%nat; HNext].

(** the same relative per-call padding before and after a resize *)
Definition ex_calls : list hstep :=
  [HCall (al 0 (-2) 1 1 (Some GSpace)) 0%nat 2 2; HResize 7 6;
   HCall (al 0 (-2) 1 1 (Some GSpace)) 0%nat 2 2].

Example hist_nonvacuous :
  hist_wf 2 2 2 (al 6 4 0 0 (Some GSpace)) ex_iter = true
  /\ length (spec_descrs 2 9 7 2 2 (al 6 4 0 0 (Some GSpace)) ex_iter) = 5%nat
  /\ map d_dims (spec_descrs 2 9 7 2 2 (al 6 4 0 0 (Some GSpace)) ex_iter)
     = [(0, 0, 4, 2); (0, 0, 4, 2); (4, 2, 0, 0); (4, 2, 0, 0); (4, 2, 0, 0)]
  /\ map d_dims (spec_descrs 1 9 7 2 2 (al 6 4 0 0 (Some GSpace)) ex_calls)
     = [(3, 1, 4, 2); (2, 1, 3, 1)].
Proof. vm_compute. repeat split. Qed.

Definition outs_eqb (a b : list (list tok)) : bool :=
  if list_eq_dec (list_eq_dec tok_dec) a b then true else false.

Lemma outs_eqb_false a b : outs_eqb a b = false -> a <> b.
Proof. unfold outs_eqb. destruct (list_eq_dec (list_eq_dec tok_dec) a b); [discriminate|auto]. Qed.

(** a cache of PADDED frames validated by the padded size alone does NOT satisfy the
    statement of [hist_run_is_spec] *)
Theorem sizecache_refuted :
  exists steps,
    hist_wf 2 2 2 (al 6 4 0 0 (Some GSpace)) steps = true
    /\ run_sizecache ex_bare 2 (repeat None 2) (init_state 2 9 7 2 2 (al 6 4 0 0 (Some GSpace)) true) steps
       <> map (render_descr ex_bare) (spec_descrs 2 9 7 2 2 (al 6 4 0 0 (Some GSpace)) steps).
Proof.
  exists ex_iter. split; [reflexivity|]. apply outs_eqb_false. vm_compute. reflexivity.
Qed.

(** a per-call padding memoised together with its resolution does NOT satisfy it either *)
Theorem memo_refuted :
  exists steps,
    hist_wf 1 2 2 (al 6 4 0 0 (Some GSpace)) steps = true
    /\ run_memo ex_bare 1 [] (init_state 1 9 7 2 2 (al 6 4 0 0 (Some GSpace)) true) steps
       <> map (render_descr ex_bare) (spec_descrs 1 9 7 2 2 (al 6 4 0 0 (Some GSpace)) steps).
Proof.
  exists ex_calls. split; [reflexivity|]. apply outs_eqb_false. vm_compute. reflexivity.
Qed.

(** ... while on histories that never change the padding / the terminal size they are
    indistinguishable from the code (so only a history can tell): first loop *)
Example sizecache_first_visit_agrees :
  run_sizecache ex_bare 2 (repeat None 2) (init_state 2 9 7 2 2 (al 6 4 0 0 (Some GSpace)) true) [HNext; HNext]
  = run ex_bare 2 9 7 2 2 (al 6 4 0 0 (Some GSpace)) true [HNext; HNext].
Proof. vm_compute. reflexivity. Qed.
