(** C18 — every draw_screen is one synchronized update, also when the inner draw raises.

    Two statements:
    - on the model of the stream ([Screen.draw_screen]): whatever the base class' draw wrote
      before it returned or raised, the stream is BEGIN ... END with no marker inside;
    - on the skeleton translated from the CURRENT source ([gen/ScreenSkel.v], regenerated
      by harness/tx/tx_screen.py on every run) with the verified analysis of [lib/Eff.v]:
      along every path, with [_ti_clear_images()] / the base class' [draw_screen()] / any
      other call of the body raising KeyboardInterrupt or an Exception before or after
      taking effect, no synchronized update is left open. *)
From Coq Require Import List ZArith Bool Lia Arith.
Import ListNotations.
From TI Require Import lib.Term lib.Eff lib.EffSound lib.EffRun model.Screen gen.ScreenSkel.

(** *** the stream *)

Lemma existsb_rev : forall (A : Type) (f : A -> bool) l, existsb f (rev l) = existsb f l.
Proof.
  induction l as [|x l IH]; simpl; [reflexivity|]. rewrite existsb_app, IH. simpl.
  rewrite orb_false_r. apply orb_comm.
Qed.

Lemma bracketed_intro : forall mid, existsb is_sync mid = false -> bracketed ([KSyncB] ++ mid ++ [KSyncE]) = true.
Proof.
  intros mid H. unfold bracketed. simpl. rewrite rev_app_distr. simpl. rewrite existsb_rev, H. reflexivity.
Qed.

Lemma clear_all_no_sync : forall k s, existsb is_sync (fst (clear_images_all k s)) = false.
Proof. intros [|] s; reflexivity. Qed.

Lemma clear_widgets_no_sync : forall k ws s, existsb is_sync (fst (clear_images_widgets k ws s)) = false.
Proof.
  intros [|] ws s; [|reflexivity]. unfold clear_images_widgets. simpl.
  induction (filter (fun w => is_kitty (snd w)) ws) as [|w l IH]; [reflexivity|exact IH].
Qed.

Lemma update_views_no_sync : forall k new s, existsb is_sync (fst (update_views k new s)) = false.
Proof.
  intros k new s. unfold update_views.
  destruct (existsb _ (filter _ (s_prev s))).
  - pose proof (clear_all_no_sync k s). destruct (clear_images_all k s). exact H.
  - destruct (filter _ (s_prev s)); [reflexivity|].
    match goal with |- context [clear_images_widgets k ?ws s] => pose proof (clear_widgets_no_sync k ws s) as H;
      destruct (clear_images_widgets k ws s) end. exact H.
Qed.

Lemma sync_bracket_lemma : forall fuel ksup ikon konsole c inner s out s',
  existsb is_sync inner = false ->
  draw_screen fuel ksup ikon konsole c inner s = Some (out, s') ->
  bracketed out = true /\ exists dels, out = [KSyncB] ++ dels ++ inner ++ [KSyncE].
Proof.
  intros fuel ksup ikon konsole c inner s out s' Hin H. unfold draw_screen in H.
  destruct (match s_canv s with Some i => Nat.eqb i (canvas_id c) | None => false end).
  - inversion H; subst. split; [apply bracketed_intro; exact Hin|]. exists []. reflexivity.
  - destruct (ti_clear_images fuel ksup ikon konsole c _) as [[dels s1]|] eqn:E; [|discriminate].
    inversion H; subst. split; [|exists dels; reflexivity].
    rewrite app_assoc. apply bracketed_intro. rewrite existsb_app, Hin, orb_false_r.
    unfold ti_clear_images in E. destruct (negb (ksup || ikon)).
    + inversion E. reflexivity.
    + destruct (walk fuel konsole (canvas_shards c)) as [new|]; [|discriminate].
      inversion E as [E1]. pose proof (update_views_no_sync ksup new (mk_scr (s_prev s) (s_cdis s) (s_wdis s) (Some (canvas_id c)))) as N.
      rewrite E1 in N. exact N.
Qed.

(** *** the source's skeleton *)

(** the calls of the body (everything that is not a write or a flush of the screen itself)
    may raise either kind of exception, before or after taking effect *)
Definition mf_inner (o : op) : bool := match o with Other => true | _ => false end.
Definition cfg_inner : cfg := mkcfg mf_inner all_kinds.

(** no synchronized update is open *)
Definition sync_closed (o : outcome) (s : st) : bool := negb (hidden s).

Lemma draw_screen_analysis : analyze cfg_inner 0 sk_draw_screen sync_closed = true.
Proof. vm_compute. reflexivity. Qed.

Lemma draw_screen_closes_sync : forall o s',
  eval cfg_inner false sk_draw_screen (init []) o s' -> hidden s' = false.
Proof.
  intros o s' E. pose proof (analyze_sound _ _ _ _ draw_screen_analysis [] eq_refl o s' E) as H.
  unfold sync_closed in H. destruct (hidden s'); [discriminate|reflexivity].
Qed.

(** non-vacuity: the analysis rejects the usual breaking edits *)
Definition mutant_end_after_try : prog :=     (* END written after the try, not in a finally *)
  sq [Op (Write WHide); Op Other; Op (Write WShow); Op Flush].
Definition mutant_begin_only : prog :=
  sq [Op (Write WHide); TryFinally true (Op Other) (Op Flush)].
Example analysis_rejects_mutants :
  analyze cfg_inner 0 mutant_end_after_try sync_closed = false
  /\ analyze cfg_inner 0 mutant_begin_only sync_closed = false.
Proof. vm_compute. split; reflexivity. Qed.

(** non-vacuity: a run of the translated skeleton in which a call raises an Exception
    while the update is open ([hidden] seen), ends with the exception propagating and
    the update closed *)
Definition closed (s : st) : bool := negb (hidden s).
Example draw_screen_raising_witness :
  witness cfg_inner Exc false hidden closed (ORaise Exc) sk_draw_screen [] 10 = true.
Proof. vm_compute. reflexivity. Qed.
Example draw_screen_raising_run :
  exists s', eval cfg_inner false sk_draw_screen (init []) (ORaise Exc) s' /\ closed s' = true.
Proof. exact (witness_run _ _ _ _ _ _ _ _ _ draw_screen_raising_witness). Qed.
