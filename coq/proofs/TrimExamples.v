(** * TrimExamples — the hypotheses of C17's theorems are satisfiable on non-trivial
    canvases, and the interesting branches are really taken *)
From Coq Require Import List ZArith Bool Lia.
Import ListNotations.
From TI Require Import lib.Term lib.TermFacts model.Block model.Padding model.Trim model.TrimSpec
     proofs.TrimCalc proofs.TrimProofs proofs.TrimBlock.
Open Scope Z_scope.

Definition red : rgb := (200, 0, 0).
Definition green : rgb := (0, 200, 0).
Definition blue : rgb := (0, 0, 200).

(** one image line of 4 cells: a two-cell run (background red, foreground green, upper
    halves), then a two-cell transparent-over-blue run; the last cell carries the reset *)
Definition ex_line : list cell :=
  [ {| pre := [TBg red; TFg green]; gl := GUpper; post := false |};
    {| pre := []; gl := GUpper; post := false |};
    {| pre := [TSgr0; TFg blue]; gl := GLower; post := false |};
    {| pre := []; gl := GLower; post := true |} ].

(** a 4x2-cell image centred in an 8x4 canvas *)
Definition ex_imgs : list (list cell) := [ex_line; ex_line].

Example ex_canvas_ok : canvas_ok 8 4 4 2 ex_imgs.
Proof. repeat split; try lia. repeat constructor. Qed.

Definition ex_lines := canvas_lines 8 4 4 2 1 1 ex_imgs.

(** a cut that starts in the middle of the first colour run (canvas column 3 = image
    column 1) and ends inside the image (after image column 2): the row starts with the
    recovered colours of the run and ends with a reset *)
Example ex_cut_mid_run :
  content_text 1 1 8 4 4 2 ex_lines 3 1 (Some 2) (Some 1)
  = [[TBg red; TFg green; TChar GUpper; TSgr0; TFg blue; TChar GLower; TSgr0; TNul; TNul]].
Proof. vm_compute. reflexivity. Qed.

(** … and it shows exactly the two cells of the full canvas *)
Example ex_cut_mid_run_crop :
  map vis_row (content_text 1 1 8 4 4 2 ex_lines 3 1 (Some 2) (Some 1))
  = crop 3 1 2 1 (map vis_row ex_lines)
  /\ crop 3 1 2 1 (map vis_row ex_lines) = [[(CRgb green, CRgb red); (CBg0, CRgb blue)]].
Proof. split; vm_compute; reflexivity. Qed.

(** without the recovered colour the first cell would show the default colours: the
    recovery is necessary, not decoration *)
Example ex_recovery_needed :
  vis_row [TChar GUpper; TSgr0; TFg blue; TChar GLower; TSgr0]
  <> [(CRgb green, CRgb red); (CBg0, CRgb blue)].
Proof. vm_compute. discriminate. Qed.

(** a cut that ends inside the image (left padding, two image cells): the closing
    reset keeps the colours from bleeding into what follows *)
Example ex_cut_right_inside :
  content_text 1 1 8 4 4 2 ex_lines 1 0 (Some 3) (Some 2)
  = [ spaces 3 ++ [TNul; TNul];
      [TChar GSpace; TBg red; TFg green; TChar GUpper; TChar GUpper; TSgr0; TNul; TNul] ].
Proof. vm_compute. reflexivity. Qed.

(** a cut wholly inside the right padding and the bottom padding *)
Example ex_cut_padding :
  content_text 1 1 8 4 4 2 ex_lines 6 2 (Some 2) (Some 2)
  = [ [TChar GSpace; TChar GSpace; TNul; TNul]; [TChar GSpace; TChar GSpace; TNul; TNul] ].
Proof. vm_compute. reflexivity. Qed.

(** the arithmetic on this canvas: window [3, 5) of 2 + 4 + 2 columns *)
Example ex_calc_trim : calc_trim 8 4 3 2 3 2 = (0, 1, 1, 0).
Proof. reflexivity. Qed.

(** a real block render (2x2 pixels -> 2x1 cells, second pixel column transparent) gives
    a canvas of that shape: the hypotheses of [block_content_is_crop] are satisfiable *)
Definition ex_pixels : list (list px) :=
  [[ {| p1 := red; p2 := green; a1 := 255; a2 := 255 |};
     {| p1 := blue; p2 := blue; a1 := 0; a2 := 0 |} ]].

Example ex_block_canvas :
  ti_lines (format_render 4 2 1 0 2 1 (Block.render true false None true ex_pixels))
  = [ [TChar GSpace; TBg green; TFg red; TChar GUpper; TNul; TSgr0; TChar GSpace; TSgr0;
       TChar GSpace; TNul; TNul];
      spaces 4 ++ [TNul; TNul] ].
Proof. vm_compute. reflexivity. Qed.

(** flow widget: 3 rows announced, 3 rows rendered (original size fits) *)
Example ex_rows : rows false (6, 5) (4, 3) = 3 /\ flow_canvas_size 6 false (6, 5) (4, 3) = (6, 3).
Proof. split; reflexivity. Qed.
