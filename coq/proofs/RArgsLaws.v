(** C16: the laws in the form quoted by [props/C16.v], the metaclass decision tables,
    and non-vacuity examples. *)
From Coq Require Import List ZArith Bool Arith Lia.
Import ListNotations.
From TI Require Import model.RArgs proofs.RArgsBasics proofs.RArgsProofs proofs.RArgsOps.

Local Arguments Nat.eqb : simpl never.

Lemma wf_lists_sound : forall pl nl, wf_lists pl nl = true -> wf_forest (mkF pl nl).
Proof.
  intros pl nl H. unfold wf_lists in H. apply andb_true_iff in H as [H1 H2]. split; simpl.
  - intros c Hc. destruct (Nat.lt_ge_cases c (length pl)) as [L|L].
    + rewrite forallb_forall in H1. apply Nat.ltb_lt. apply H1. apply in_seq. lia.
    + rewrite nth_overflow by assumption. assumption.
  - destruct (nth 0 nl None); [discriminate|reflexivity].
Qed.

Section Laws.
Variable F : forest.
Hypothesis WFF : wf_forest F.

Definition init_compatible (cls : nat) (iv : option sval) : bool :=
  match iv with Some v => anc F (s_cls v) cls | None => true end.

(** the value the documented rule gives to class [c] *)
Definition ruled (cls : nat) (iv : option sval) (nss : list nsv) (c : nat) : option (list Z) :=
  if anc F c cls && hasns F c then
    Some (match last_for c nss with
          | Some f => f                                   (* the last namespace given for c *)
          | None => match iv with
                    | Some v => match s_ns v c with
                                | Some f => f             (* else init's *)
                                | None => dflt F c        (* else the default *)
                                end
                    | None => dflt F c
                    end
          end)
  else None.

Lemma spec_construct_cases : forall cls iv nss,
  (init_compatible cls iv = false /\ spec_construct F cls iv nss = Err EIncompatRA) \/
  (init_compatible cls iv = true /\ forallb (ns_compatible F cls) nss = false /\
   spec_construct F cls iv nss = Err EIncompatNS) \/
  (init_compatible cls iv = true /\ forallb (ns_compatible F cls) nss = true /\
   spec_construct F cls iv nss = Ok {| s_cls := cls; s_ns := ruled cls iv nss |}).
Proof.
  intros cls iv nss. unfold spec_construct, init_compatible.
  destruct iv as [v|]; [destruct (anc F (s_cls v) cls)|]; simpl; auto;
    destruct (forallb (ns_compatible F cls) nss); simpl; auto.
Qed.

Theorem construct_spec : forall h k cls init iv nss id,
  WF F h -> init_agree h init iv ->
  snd (construct F h k cls init nss) = Ok id ->
  exists kk d,
    getobj (fst (construct F h k cls init nss)) id = Some (kk, cls, d) /\
    forall c, dget d c = ruled cls iv nss c.
Proof.
  intros h k cls init iv nss id W IA R.
  destruct (construct_refines F WFF h k cls init iv nss W IA) as (_ & _ & A).
  rewrite R in A.
  destruct (spec_construct_cases cls iv nss) as [(_ & E)|[(_ & _ & E)|(_ & _ & E)]];
    rewrite E in A; simpl in A; try contradiction.
  exact A.
Qed.

Theorem construct_accepts_iff : forall h k cls init iv nss,
  WF F h -> init_agree h init iv ->
  let r := snd (construct F h k cls init nss) in
  ((exists id, r = Ok id) <->
   init_compatible cls iv = true /\ forallb (ns_compatible F cls) nss = true) /\
  (r = Err EIncompatRA <-> init_compatible cls iv = false) /\
  (r = Err EIncompatNS <->
   init_compatible cls iv = true /\ forallb (ns_compatible F cls) nss = false).
Proof.
  intros h k cls init iv nss W IA r.
  destruct (construct_refines F WFF h k cls init iv nss W IA) as (_ & _ & A).
  fold r in A. unfold agree in A.
  destruct (spec_construct_cases cls iv nss) as [(C1 & E)|[(C1 & C2 & E)|(C1 & C2 & E)]];
    rewrite E in A; rewrite C1; try rewrite C2; destruct r as [id|e]; try contradiction;
    try subst e; (split; [|split]); split; try (intros [H1 H2]); try (intros [x Hx]);
    try intro; try discriminate; try congruence; eauto.
Qed.

Lemma rnew_heap : forall h k cls init nss h1 self,
  rnew F h k cls init nss = Ok (h1, self) -> h1 = h \/ h1 = fst (alloc h k).
Proof.
  intros h k cls init nss h1 self H. unfold rnew in H.
  destruct (init_info h init) as [ii|]; [|discriminate].
  destruct (match ii with Some (_, _, ci, _) => negb (anc F ci cls) | None => false end);
    [discriminate|].
  destruct nss.
  - destruct (default_like h k ii); [destruct (itn h k cls)|];
      try (inversion H; subst; auto; fail);
      destruct ii as [[[[i ki] ci] di]|]; try (inversion H; subst; auto; fail);
      destruct (Nat.eqb ki k && Nat.eqb ci cls); inversion H; subst; auto.
  - inversion H; subst; auto.
Qed.

(** a rejected constructor call leaves every object and the interning table as they were *)
Theorem construct_rejected_unchanged : forall h k cls init nss e,
  WF F h ->
  snd (construct F h k cls init nss) = Err e ->
  let h' := fst (construct F h k cls init nss) in
  (forall i, getobj h' i = getobj h i) /\ itn h' = itn h.
Proof.
  intros h k cls init nss e W R. unfold construct in *.
  destruct (rnew F h k cls init nss) as [[h1 self]|e0] eqn:RN; simpl in *.
  - destruct (rinit F h1 self cls init nss) as [h2|e1]; simpl in *; [discriminate|].
    apply rnew_heap in RN as [->| ->]; [split; reflexivity|]. split; [|reflexivity].
    intro i. destruct (Nat.eq_dec i (nxt h)) as [->|N].
    + unfold getobj at 1. simpl. rewrite fupd_same. simpl.
      unfold getobj. destruct (hp h (nxt h)) eqn:E; [|reflexivity].
      apply (wf_bound _ _ W) in E. lia.
    + apply getobj_alloc_old. assumption.
  - split; reflexivity.
Qed.

(** the aliasing theorem, one operation: whatever the operands (shared or not), every
    object that exists keeps its content and every interning entry stays *)
Theorem heap_monotone : forall h env senv o,
  WF F h -> env_agree h env senv ->
  let h' := fst (step_op F h env o) in
  (forall i x, getobj h i = Some x -> getobj h' i = Some x) /\
  (forall k c i, itn h k c = Some i -> itn h' k c = Some i) /\
  WF F h'.
Proof.
  intros h env senv o W EA h'.
  destruct (step_op_refines F WFF h env senv o W EA) as (A & B & _). fold h' in A, B.
  split; [|split; [|assumption]].
  - intros i x G. apply (mono_getobj F h h' i x W B G).
  - destruct B as (_ & _ & B). exact B.
Qed.

Theorem op_refines : forall h env senv o,
  WF F h -> env_agree h env senv ->
  agree (fst (step_op F h env o)) (snd (step_op F h env o)) (spec_op F senv o).
Proof. intros h env senv o W EA. apply (step_op_refines F WFF h env senv o W EA). Qed.

(** sequences: objects live after a prefix are untouched by any continuation *)
Theorem run_heap_monotone : forall p q i x,
  getobj (fst (run F p)) i = Some x -> getobj (fst (run F (p ++ q))) i = Some x.
Proof.
  intros p q i x G. destruct (run_refines F WFF p) as [W _].
  apply (mono_getobj F _ _ i x W (run_mono F WFF p q) G).
Qed.

End Laws.

(** ** Metaclass decision tables *)

Definition all_defaults (s : nstmt) : bool := forallb (fun b => b) (n_fields s).
Definition has_fields (s : nstmt) : bool := negb (Nat.eqb (length (n_fields s)) 0).
Definition args_kind (s : nstmt) : bool := match n_kind s with KArgs => true | KData => false end.

Ltac meta_crush :=
  repeat match goal with
         | |- context [if ?b then _ else _] => destruct b eqn:?; simpl in *
         | |- context [match ?x with _ => _ end] => destruct x eqn:?; simpl in *
         end.

Theorem meta_no_default_iff : forall s,
  ns_meta s = MReject MNoDefault <-> args_kind s = true /\ all_defaults s = false.
Proof.
  intros s. unfold ns_meta, args_kind, all_defaults.
  destruct (n_kind s); simpl; destruct (forallb (fun b => b) (n_fields s)); simpl;
    (split; [intro H|intros [H1 H2]]); try discriminate; try auto;
    exfalso; revert H; meta_crush; discriminate.
Qed.

Theorem meta_multiple_bases_iff : forall s,
  ns_meta s = MReject MMultipleBases <->
  negb (args_kind s && negb (all_defaults s)) = true /\ n_extra_bases s <> 0.
Proof.
  intros s. unfold ns_meta, args_kind, all_defaults.
  destruct ((match n_kind s with KArgs => true | KData => false end)
            && negb (forallb (fun b => b) (n_fields s))); simpl.
  - split; [discriminate|intros [H _]; discriminate].
  - destruct (Nat.eqb (n_extra_bases s) 0) eqn:E; simpl.
    + apply Nat.eqb_eq in E. split; [|intros [_ H]; contradiction].
      intro H. exfalso. revert H. meta_crush; discriminate.
    + apply Nat.eqb_neq in E. split; auto.
Qed.

Theorem meta_reassociate_iff : forall s,
  ns_meta s = MReject MReassociate <->
  negb (args_kind s && negb (all_defaults s)) = true /\ n_extra_bases s = 0 /\
  n_base_fields s && has_fields s = false /\
  n_rc s <> None /\ n_base_assoc s = true.
Proof.
  intros s. unfold ns_meta, args_kind, all_defaults, has_fields.
  destruct ((match n_kind s with KArgs => true | KData => false end)
            && negb (forallb (fun b => b) (n_fields s))); simpl.
  - split; [discriminate|intros [H _]; discriminate].
  - destruct (Nat.eqb (n_extra_bases s) 0) eqn:E; simpl.
    + apply Nat.eqb_eq in E.
      destruct (n_base_fields s && negb (Nat.eqb (length (n_fields s)) 0)); simpl.
      * split; [discriminate|]. intros (_ & _ & H & _). discriminate.
      * destruct (n_rc s) as [r|].
        -- destruct (n_base_assoc s).
           ++ split; auto. intros _. repeat split; auto. discriminate.
           ++ split; [|intros (_ & _ & _ & _ & H); discriminate].
              intro H. exfalso. revert H. meta_crush; discriminate.
        -- split; [|intros (_ & _ & _ & H & _); contradiction].
           intro H. exfalso. revert H. meta_crush; discriminate.
    + apply Nat.eqb_neq in E. split; [discriminate|]. intros (_ & H & _). contradiction.
Qed.

(** accepted exactly when every rule is met *)
Theorem meta_accept_iff : forall s,
  ns_meta s = MAccept <->
  (args_kind s = true -> all_defaults s = true) /\
  n_extra_bases s = 0 /\
  n_base_fields s && has_fields s = false /\
  match n_rc s with
  | Some r => n_base_assoc s = false /\ has_fields s = true /\ r = Some false /\
              n_required s = false
  | None => has_fields s = false /\ n_base_fields s && n_required s = false
  end.
Proof.
  intros s. unfold ns_meta, args_kind, all_defaults, has_fields.
  destruct (n_kind s); simpl;
    destruct (forallb (fun b => b) (n_fields s)); simpl;
    try (split; [discriminate|intros (H & _); specialize (H eq_refl); discriminate]);
    (destruct (Nat.eqb (n_extra_bases s) 0) eqn:E; simpl;
     [apply Nat.eqb_eq in E|
      apply Nat.eqb_neq in E; split; [discriminate|intros (_ & H & _); contradiction]]);
    (destruct (n_base_fields s); destruct (negb (Nat.eqb (length (n_fields s)) 0)); simpl;
     try (split; [discriminate|intros (_ & _ & H & _); discriminate]));
    (destruct (n_rc s) as [[[|]|]|]; destruct (n_base_assoc s); destruct (n_required s); simpl;
     split; intro H; try discriminate; try (repeat split; auto; fail);
     try (destruct H as (_ & _ & _ & H); destruct H as (H1 & H2 & H3 & H4);
          try discriminate; fail);
     try (destruct H as (_ & _ & _ & H); destruct H as (H1 & H2); try discriminate; fail)).
Qed.

(** namespace instance construction: unknown fields *)
Theorem ns_ctor_accept_iff : forall nf nv kw,
  ns_ctor nf nv kw = None <-> nv <= nf /\ forall j, In j kw -> nv <= j < nf.
Proof.
  intros nf nv kw. unfold ns_ctor. destruct (nf <? nv) eqn:E1.
  - apply Nat.ltb_lt in E1. split; [discriminate|intros [H _]; lia].
  - apply Nat.ltb_ge in E1. destruct (existsb (fun j => nf <=? j) kw) eqn:E2.
    + split; [discriminate|]. intros [_ H]. apply existsb_exists in E2 as (j & Hj & L).
      apply Nat.leb_le in L. apply H in Hj. lia.
    + destruct (existsb (fun j => j <? nv) kw) eqn:E3.
      * split; [discriminate|]. intros [_ H]. apply existsb_exists in E3 as (j & Hj & L).
        apply Nat.ltb_lt in L. apply H in Hj. lia.
      * split; [|reflexivity]. intros _. split; [assumption|]. intros j Hj.
        assert (A : (nf <=? j) = false).
        { destruct (nf <=? j) eqn:A; [|reflexivity].
          assert (existsb (fun j => nf <=? j) kw = true) by (apply existsb_exists; eauto).
          congruence. }
        assert (B : (j <? nv) = false).
        { destruct (j <? nv) eqn:B; [|reflexivity].
          assert (existsb (fun j => j <? nv) kw = true) by (apply existsb_exists; eauto).
          congruence. }
        apply Nat.leb_gt in A. apply Nat.ltb_ge in B. lia.
Qed.

Theorem ns_ctor_unknown_iff : forall nf nv kw,
  ns_ctor nf nv kw = Some CUnknown <-> nv <= nf /\ exists j, In j kw /\ nf <= j.
Proof.
  intros nf nv kw. unfold ns_ctor. destruct (nf <? nv) eqn:E1.
  - apply Nat.ltb_lt in E1. split; [discriminate|intros [H _]; lia].
  - apply Nat.ltb_ge in E1. destruct (existsb (fun j => nf <=? j) kw) eqn:E2.
    + split; [|reflexivity]. intros _. split; [assumption|].
      apply existsb_exists in E2 as (j & Hj & L). apply Nat.leb_le in L. eauto.
    + split.
      * destruct (existsb (fun j => j <? nv) kw); discriminate.
      * intros [_ (j & Hj & L)].
        assert (existsb (fun j => nf <=? j) kw = true).
        { apply existsb_exists. exists j. split; [assumption|apply Nat.leb_le; assumption]. }
        congruence.
Qed.

Theorem renderable_meta_iff : forall bases,
  renderable_meta bases = true <-> In true bases.
Proof.
  intros. unfold renderable_meta. rewrite existsb_exists. split.
  - intros [x [H1 H2]]. subst. assumption.
  - intro H. exists true. auto.
Qed.

(** ** Non-vacuity: a concrete forest, a concrete program with shared operands *)

Definition exF : forest :=
  mkF [0; 0; 1; 1; 0] [None; Some [1; 2]%Z; Some [3]%Z; None; Some [7]%Z].

Example exF_wf : wf_forest exF.
Proof. apply wf_lists_sound. vm_compute. reflexivity. Qed.

Definition exP : list op :=
  [ OConstruct 0 2 None [];                       (* 0: default set of class 2, interned *)
    OConstruct 0 2 (Some 0) [];                   (* 1: the same object again *)
    OConstruct 0 2 None [(1, [5; 6]%Z)];          (* 2 *)
    OUpdateFields 2 2 [(0, 9%Z)];                 (* 3 *)
    OConvert 3 1;                                 (* 4 *)
    OConvert 3 4;                                 (* 5: ValueError *)
    OOr (2, [4]%Z) (inr 4);                       (* 6 *)
    ORor (1, [0; 0]%Z) (inl (1, [8; 8]%Z));       (* 7 *)
    OPos (4, [7]%Z);                              (* 8: equals the default of class 4 *)
    OConstruct 1 2 (Some 0) [];                   (* 9: a RenderArgs subclass *)
    OConstruct 0 1 (Some 2) [];                   (* 10: IncompatibleRenderArgsError *)
    OConstruct 0 3 (Some 4) [(4, [1]%Z)];         (* 11: IncompatibleArgsNamespaceError *)
    OConstruct 0 0 None [] ].                     (* 12: BASE_RENDER_ARGS *)

Definition show (r : res nat) : nat + err := match r with Ok i => inl i | Err e => inr e end.
Example exP_results :
  map show (snd (run exF exP)) =
  [inl 1; inl 1; inl 2; inl 3; inl 4; inr EValue; inl 5; inl 6; inl 7; inl 8;
   inr EIncompatRA; inr EIncompatNS; inl 0].
Proof. vm_compute. reflexivity. Qed.

Example exP_contents :
  getobj (fst (run exF exP)) 5 = Some (0, 2, [(2, [4]%Z); (1, [5; 6]%Z)]) /\
  getobj (fst (run exF exP)) 1 = Some (0, 2, [(2, [3]%Z); (1, [1; 2]%Z)]) /\
  getobj (fst (run exF exP)) 8 = Some (1, 2, [(2, [3]%Z); (1, [1; 2]%Z)]) /\
  itn (fst (run exF exP)) 0 2 = Some 1 /\ itn (fst (run exF exP)) 1 2 = None.
Proof. vm_compute. auto. Qed.
