(** Proofs for model/SettingsDetect.v: support detection inside settings histories changes
    no setting at any level (C20, round 7). *)
From Coq Require Import List ZArith Bool Arith Lia.
Import ListNotations.
From TI Require Import model.Settings proofs.SettingsProofs model.SettingsTie
     model.SettingsDetect model.SettingsDetectTie.

Section Detect.
Variables (k : kind) (isfs : bool) (g : gstyle) (t : ident) (par : nat -> nat).

Lemma dstep_detect_keeps_settings s o :
  is_detect o = true -> d_set (fst (dstep k isfs g t par s o)) = d_set s.
Proof.
  destruct o as [o'|fresh c|c]; cbn [is_detect dstep]; try discriminate; intros _.
  - destruct (is_supported g t par _ c); reflexivity.
  - destruct (is_supported g t par _ c); reflexivity.
Qed.

Lemma dstep_op_is_step s o' :
  d_set (fst (dstep k isfs g t par s (DOp o'))) = fst (step k par (d_set s) o').
Proof. cbn [dstep]. destruct (step k par (d_set s) o'); reflexivity. Qed.

Lemma dstep_op_keeps_flags s o' :
  d_sup (fst (dstep k isfs g t par s (DOp o'))) = d_sup s.
Proof. cbn [dstep]. destruct (step k par (d_set s) o'); reflexivity. Qed.

Lemma dfold_settings ops : forall s,
  d_set (fold_left (fun s o => fst (dstep k isfs g t par s o)) ops s)
  = fold_left (fun s o => fst (step k par s o)) (erase ops) (d_set s).
Proof.
  induction ops as [|o r IH]; intro s; [reflexivity|].
  cbn [fold_left]. rewrite IH.
  destruct o as [o'|fresh c|c]; cbn [erase fold_left].
  - rewrite dstep_op_is_step. reflexivity.
  - rewrite dstep_detect_keeps_settings by reflexivity. reflexivity.
  - rewrite dstep_detect_keeps_settings by reflexivity. reflexivity.
Qed.

Lemma drun_settings ops : d_set (drun k isfs g t par ops) = run k par (erase ops).
Proof. unfold drun, run. rewrite dfold_settings. reflexivity. Qed.

Lemma erase_app a b : erase (a ++ b) = erase a ++ erase b.
Proof.
  induction a as [|o r IH]; [reflexivity|].
  destruct o; cbn [app erase]; rewrite IH; reflexivity.
Qed.

Lemma erase_detects ops : forallb is_detect ops = true -> erase ops = [].
Proof.
  induction ops as [|o r IH]; [reflexivity|].
  destruct o; cbn [forallb is_detect erase andb]; try discriminate; exact IH.
Qed.

Hypothesis wf : wf_par par.

Theorem detect_changes_no_setting icls ops :
  d_set (drun k isfs g t par ops) = run k par (erase ops)
  /\ (forall c, cls_eff k par (d_set (drun k isfs g t par ops)) c = spec_cls k par (erase ops) c)
  /\ (forall i, inst_eff k par icls (d_set (drun k isfs g t par ops)) i
                = spec_inst k par icls (erase ops) i).
Proof.
  rewrite drun_settings. split; [reflexivity|]. split; intros.
  - apply cls_lookup_spec; exact wf.
  - apply inst_lookup_spec; exact wf.
Qed.

(** detection steps inserted anywhere: [a ++ d ++ b] reads as [a ++ b] *)
Theorem detect_steps_inserted_anywhere icls a d b :
  forallb is_detect d = true ->
  (forall c, cls_eff k par (d_set (drun k isfs g t par (a ++ d ++ b))) c
             = cls_eff k par (d_set (drun k isfs g t par (a ++ b))) c)
  /\ (forall i, inst_eff k par icls (d_set (drun k isfs g t par (a ++ d ++ b))) i
                = inst_eff k par icls (d_set (drun k isfs g t par (a ++ b))) i).
Proof.
  intro H. rewrite !drun_settings, !erase_app, (erase_detects d H). cbn [app].
  split; reflexivity.
Qed.

(** a newly created instance reads what the documented rule gives its class on the user's
    part of the history so far *)
Theorem new_instance_reads_class ops c :
  let s := drun k isfs g t par ops in
  let r := snd (dstep k isfs g t par s (DNew c)) in
  fst r = 1%Z -> snd r = spec_cls k par (erase ops) c.
Proof.
  cbn zeta. cbn [dstep]. destruct (is_supported g t par _ c) as [sup' r].
  cbn [snd fst]. destruct (r || _); cbn [b2z]; [intros _|discriminate].
  rewrite drun_settings. apply cls_lookup_spec; exact wf.
Qed.

(** the model's trace satisfies the history-level specification used by the correspondence *)
Lemma dtrace_spec_aux icls nc ni : forall todo done,
  rows_ok_spec k todo (dspec_trace_aux k par icls nc ni done todo)
    (dtrace k isfs g t par icls nc ni (drun k isfs g t par done) todo) = true.
Proof.
  assert (ZL : forall l, zl_eqb l l = true).
  { induction l; cbn; [reflexivity|]. rewrite Z.eqb_refl, IHl. reflexivity. }
  induction todo as [|o r IH]; intro done; [reflexivity|].
  cbn [dspec_trace_aux dtrace].
  destruct (dstep k isfs g t par (drun k isfs g t par done) o) as [s' [a b]] eqn:E.
  assert (Hs : s' = drun k isfs g t par (done ++ [o])).
  { unfold drun. rewrite fold_left_app. cbn [fold_left]. fold (drun k isfs g t par done).
    rewrite E. reflexivity. }
  cbn [rows_ok_spec]. rewrite Hs, IH, andb_true_r.
  unfold row_ok_spec. cbn [snd fst].
  assert (Hobs : observe k par icls nc ni (d_set (drun k isfs g t par (done ++ [o])))
                 = spec_observe k par icls nc ni (erase (done ++ [o]))).
  { rewrite drun_settings. unfold observe, spec_observe. f_equal; apply map_ext; intro x.
    - apply cls_lookup_spec; exact wf.
    - apply inst_lookup_spec; exact wf. }
  rewrite Hobs, ZL. cbn [andb].
  destruct o as [o'|fresh c|c]; cbn [dspec_out dspec_new dstep] in *.
  - rewrite andb_true_r.
    destruct (step k par (d_set (drun k isfs g t par done)) o') as [s2 x] eqn:Es.
    inversion E; subst. clear E.
    destruct o' as [c v|c|i v|i]; cbn [step spec_out] in *.
    + destruct (k_valid k v); inversion Es; reflexivity.
    + destruct (k_cls_unset k); inversion Es; reflexivity.
    + destruct (k_inst_set k); [destruct (k_valid k v)|]; inversion Es; reflexivity.
    + destruct (k_inst_set k); inversion Es; reflexivity.
  - reflexivity.
  - destruct (is_supported g t par _ c) as [sup' r0]. inversion E; subst. clear E.
    destruct (r0 || _); [|reflexivity].
    rewrite erase_app. cbn [erase]. rewrite app_nil_r.
    rewrite drun_settings, (cls_lookup_spec k par wf), Z.eqb_refl, orb_true_r. reflexivity.
Qed.

Theorem dtrace_satisfies_spec icls nc ni ops :
  rows_ok_spec k ops (dspec_trace k par icls nc ni ops)
    (dtrace k isfs g t par icls nc ni (dinit k) ops) = true.
Proof. exact (dtrace_spec_aux icls nc ni ops []). Qed.

End Detect.

(** ** The re-homing variant is excluded (Konsole, kitty style) *)
Definition ex_dpar := parf [0; 0].
Example detect_rehoming_refuted :
  exists ops c,
    cls_eff (k_render_method 2) ex_dpar
            (d_set (v_s (vrun (k_render_method 2) false GKitty IdKonsole ex_dpar ops))) c
    <> spec_cls (k_render_method 2) ex_dpar (erase ops) c.
Proof. exists [DOp (ClsSet 0 0%Z); DNew 1], 1. vm_compute. discriminate. Qed.

Example detect_rehoming_refuted_default :
  cls_eff (k_render_method 2) ex_dpar
          (d_set (v_s (vrun (k_render_method 2) false GKitty IdKonsole ex_dpar [DDetect false 0]))) 0
  <> k_default (k_render_method 2).
Proof. vm_compute. discriminate. Qed.

(** on every other terminal identity the variant is silent: the terminal identity is a
    dimension of the history *)
Example detect_rehoming_needs_konsole :
  forallb (fun t => Z.eqb (cls_eff (k_render_method 2) ex_dpar
             (d_set (v_s (vrun (k_render_method 2) false GKitty t ex_dpar
                               [DOp (ClsSet 0 0%Z); DNew 1]))) 1) 0)
          [IdKitty30; IdKitty19; IdWezterm; IdIterm2; IdUnknown] = true.
Proof. vm_compute. reflexivity. Qed.

(** non-vacuity: a history with detection before, between and after set / unset operations,
    on a subclass first *)
Example ex_detect_history :
  let ops := [DDetect false 1; DOp (ClsSet 0 1%Z); DNew 1; DOp (ClsSet 1 0%Z); DDetect true 0;
              DOp (ClsUnset 1); DNew 0] in
  map (fun r => nth 0 r 9%Z) (dtrace (k_render_method 2) false GKitty IdKonsole ex_dpar (parf [1]) 2 1
                                     (dinit (k_render_method 2)) ops) = [1; 0; 1; 0; 1; 0; 1]%Z
  /\ observe (k_render_method 2) ex_dpar (parf [1]) 2 1
             (d_set (drun (k_render_method 2) false GKitty IdKonsole ex_dpar ops)) = [1; 1; 1]%Z.
Proof. vm_compute. split; reflexivity. Qed.
