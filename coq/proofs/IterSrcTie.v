(** * IterSrcTie — [RenderIterator.seek], TRANSLATED from the source on every run
    ([gen/IterSrc.v], by [harness/tx/tx_iter.py]), against the model's [Iter.seek] (the function
    the C08 refinement theorems are about): for ALL states, offsets and whence values the model
    step raises exactly the exception the source raises, or performs exactly the update of
    (frame_offset, seek_whence) the source performs, and changes nothing else. *)
From Coq Require Import ZArith Bool Lia List.
From TI Require Import model.Iter gen.IterSrc.
Open Scope Z_scope.

Section Tie.
  Variable RS : Type.
  Variable n : option Z.

  Local Notation state := (state RS).

  (** what the translated source says [seek] does, applied to a model state *)
  Definition apply_seek (s : state) (r : seek_res) : state * out :=
    match r with
    | SFinalized => (s, OErr EFinalized)
    | SValue => (s, OErr EValue)
    | SUpdate f w =>
        (set_rd RS s {| fo := f; wh := w; d_size := d_size (rd s); d_dur := d_dur (rd s) |}, OOk)
    end.

  Theorem seek_is_source : forall (s : state) off w,
    seek RS n s off w = apply_seek s (src_seek (closed s) n (fo (rd s)) off w).
  Proof.
    intros s off w. unfold seek, src_seek, apply_seek.
    destruct (closed s); [reflexivity|].
    destruct n as [k|].
    - destruct w; cbn [whence_eqb];
        match goal with |- context [(0 <=? ?f) && (?f <? k)] => destruct ((0 <=? f) && (f <? k)) end;
        reflexivity.
    - rewrite Z.gtb_ltb.
      destruct ((whence_eqb w WStart && (off <? 0)) || (whence_eqb w WEnd && (0 <? off))); reflexivity.
  Qed.

  (** consequences read off the SOURCE: a rejected seek changes nothing; an accepted seek on a
      definite source leaves [0 <= frame_offset < frame_count] and whence START; CURRENT is
      relative to the pending frame offset *)
  Corollary source_seek_rejected_no_change : forall (s : state) off w,
    match src_seek (closed s) n (fo (rd s)) off w with
    | SUpdate _ _ => True
    | _ => fst (seek RS n s off w) = s
    end.
  Proof.
    intros s off w. rewrite seek_is_source.
    destruct (src_seek (closed s) n (fo (rd s)) off w); cbn; auto.
  Qed.

  Corollary source_seek_definite_range : forall closed_ k fo_ off w f w',
    src_seek closed_ (Some k) fo_ off w = SUpdate f w' ->
    0 <= f < k /\ w' = WStart /\
    f = match w with WStart => off | WCurrent => fo_ + off | WEnd => k + off - 1 end.
  Proof.
    intros c k fo_ off w f w' H. unfold src_seek in H.
    destruct c; [discriminate|].
    destruct w; cbn [whence_eqb] in H;
      match type of H with context [(0 <=? ?x) && (?x <? k)] =>
        destruct (0 <=? x) eqn:E1; destruct (x <? k) eqn:E2; cbn in H; try discriminate end;
      inversion H; subst; apply Z.leb_le in E1; apply Z.ltb_lt in E2; repeat split; lia.
  Qed.
End Tie.

(** ** [set_frame_duration], translated statement by statement, and the position of the
    finalized check in every control method *)
Section TieDuration.
  Variable RS : Type.
  Local Notation state := (state RS).

  Definition apply_sfd (s : state) (r : sfd_res) : state * out :=
    match r with
    | FFinalized => (s, OErr EFinalized)
    | FValue => (s, OErr EValue)
    | FAssign d =>
        (set_rd RS s {| fo := fo (rd s); wh := wh (rd s); d_size := d_size (rd s); d_dur := d |}, OOk)
    end.

  Theorem set_frame_duration_is_source : forall (s : state) d,
    set_duration RS s d = apply_sfd s (src_set_frame_duration (closed s) d).
  Proof.
    intros s d. unfold set_duration, src_set_frame_duration, apply_sfd.
    destruct (closed s); [reflexivity|].
    destruct d as [|ms]; [reflexivity|].
    destruct (ms <=? 0); reflexivity.
  Qed.
End TieDuration.

(** in every control method the finalized check is the FIRST statement: on a finalized
    iterator no argument is looked at *)
Theorem finalized_check_first :
  forall p, In p src_finalized_check_position -> snd p = 0%nat.
Proof.
  intros p H. unfold src_finalized_check_position in H. cbn in H.
  repeat (destruct H as [H|H]; [subst p; reflexivity|]). destruct H.
Qed.

Theorem finalized_check_covers_all_methods :
  map fst src_finalized_check_position = (0 :: 1 :: 2 :: 3 :: 4 :: nil)%nat.
Proof. reflexivity. Qed.
