(** * ZIndexSrcTie — the z-index allocator of the urwid widgets, TRANSLATED from the source on
    every run ([gen/ZIndexSrc.v], by [harness/tx/tx_zindex.py]), is the model's [Screen.alloc]
    (the function the C18 z-index theorems are about) for EVERY allocator state. *)
From Coq Require Import List ZArith Bool Lia.
Import ListNotations.
From TI Require Import model.Screen gen.ZIndexSrc.
Open Scope Z_scope.

Theorem alloc_is_source : forall pick s,
  alloc pick s =
  match pop_nth pick (a_free s) with
  | Some (z, f') => (Some z, mk_alloc (a_next s) f')
  | None => match src_z_counter_step (a_next s) with
            | None => (None, s)
            | Some (z, nx) => (Some z, mk_alloc nx [])
            end
  end.
Proof.
  intros pick s. unfold alloc, src_z_counter_step, zlimit.
  destruct (pop_nth pick (a_free s)) as [[z f']|]; [reflexivity|].
  rewrite Z.gtb_ltb. destruct (a_next s =? 2147483648); reflexivity.
Qed.

Theorem alloc_init_is_source : alloc_init = mk_alloc src_z_initial [].
Proof. reflexivity. Qed.
