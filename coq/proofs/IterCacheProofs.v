(** * IterCacheProofs — frame caching is invisible and never re-renders (C09) *)
From Coq Require Import List ZArith Bool Lia.
Import ListNotations.
From TI Require Import model.Iter model.IterSpec proofs.IterProofs proofs.IterProofs2.
Open Scope Z_scope.

Lemma no_repeatb_spec : forall l, no_repeatb l = true <-> no_repeat l.
Proof.
  induction l as [|c r IH]; cbn; [tauto|].
  rewrite andb_true_iff, IH. destruct (latest (rc_fo c) r); [rewrite negb_true_iff|]; tauto.
Qed.

Section Cache.
  Variable RS : Type.
  Variable render : RS -> Z -> whence -> size -> dur -> Z -> rres * RS.
  Variable n : option Z.
  Variable term : size.

  Notation state := (state RS).
  Notation step := (step RS render n term).
  Notation trace := (trace RS render n term).
  Notation run := (run RS render n term).
  Notation render_det := (render_det RS render).

  (** ** caching is invisible *)

  (** two configurations that differ at most in the [cache] argument *)
  Definition same_but_cache (c c' : config) : Prop :=
    c_loops c = c_loops c' /\ c_size c = c_size c' /\ c_dur c = c_dur c' /\ c_args c = c_args c' /\
    c_pad c = c_pad c' /\ c_owns c = c_owns c' /\ c_frame c = c_frame c'.

  Theorem cache_transparent : forall c c' rs0 s s' ops,
      render_det -> same_but_cache c c' ->
      mk RS n term c rs0 = inl s -> mk RS n term c' rs0 = inl s' ->
      trace s ops = trace s' ops.
  Proof.
    intros c c' rs0 s s' ops Hd (H1 & H2 & H3 & H4 & H5 & H6 & H7) Hs Hs'.
    destruct (spec_mk RS n term c rs0) as [a|e] eqn:Ha.
    2:{ apply (mk_refines_spec RS n term c rs0 e) in Ha. congruence. }
    destruct (spec_mk RS n term c' rs0) as [a'|e] eqn:Ha'.
    2:{ apply (mk_refines_spec RS n term c' rs0 e) in Ha'. congruence. }
    assert (a = a').
    { revert Ha Ha'. unfold spec_mk. rewrite H1, H2, H3, H4, H5.
      destruct (match n with Some k => k <? 2 | None => false end); [discriminate|].
      destruct (c_loops c' =? 0); [discriminate|].
      destruct (match c_cache c with CBool _ => false | CInt v => v <=? 0 end); [discriminate|].
      destruct (match c_cache c' with CBool _ => false | CInt v => v <=? 0 end); [discriminate|].
      destruct (c_args c'); [|discriminate]. congruence. }
    subst a'.
    rewrite (iter_refines_spec RS render n term c rs0 s a ops (or_intror Hd) Hs Ha).
    rewrite (iter_refines_spec RS render n term c' rs0 s' a ops (or_intror Hd) Hs' Ha').
    reflexivity.
  Qed.

  (** ** a cached frame is not rendered again while the settings are unchanged *)

  (** state level: a [next] that finds its frame in the cache with the current
      (size, duration, arguments) invokes no [_render_] and delivers that frame *)
  Theorem cache_hit_no_render : forall s fno e,
      cached s = true -> cache s fno = Some e -> key_eqb e (rd s) (args s) = true ->
      log (gh (fst (body RS render n s fno))) = log (gh s) /\
      rs (fst (body RS render n s fno)) = rs s /\
      snd (body RS render n s fno) = OFrame (wrap_frame (pad s) (padded s) (ce_frame e)).
  Proof.
    intros s fno e Hc He Hk. unfold body. rewrite Hc, He, Hk. unfold deliver. cbn. auto.
  Qed.

  (** the cache holds, for every frame, exactly the latest render of that frame *)
  Definition cache_is_latest (s : state) : Prop :=
    forall i, match cache s i with
              | Some e => exists c, latest i (log (gh s)) = Some c /\
                                    rc_size c = ce_size e /\ rc_dur c = ce_dur e /\ rc_args c = ce_args e
              | None => latest i (log (gh s)) = None
              end.

  Definition cinv (s : state) : Prop :=
    cached s = true ->
    no_repeat (log (gh s)) /\ definite n = true /\ (closed s = false -> cache_is_latest s).

  Lemma close_log : forall s, log (gh (close RS s)) = log (gh s).
  Proof.
    intros s. unfold close. destruct (closed s); [reflexivity|]. cbn.
    destruct (owns (gh s)); [|reflexivity]. unfold data_finalize. destruct (finalized (gh s)); reflexivity.
  Qed.
  Lemma close_cached : forall s, cached (close RS s) = cached s.
  Proof. intros s. unfold close. destruct (closed s); reflexivity. Qed.
  Lemma close_closed : forall s, closed (close RS s) = true.
  Proof. intros s. unfold close. destruct (closed s) eqn:E; [exact E|reflexivity]. Qed.

  Lemma cinv_closed_intro : forall s,
      (cached s = true -> no_repeat (log (gh s)) /\ definite n = true) -> cinv (close RS s).
  Proof.
    intros s A. unfold cinv. rewrite close_log, close_cached, close_closed.
    intros Hcd. destruct (A Hcd). repeat split; auto. discriminate.
  Qed.

  Lemma cinv_close : forall s, cinv s -> cinv (close RS s).
  Proof. intros s H. apply cinv_closed_intro. intros Hcd. destruct (H Hcd) as (A & B & _). auto. Qed.

  Lemma key_eqb_false_same_key : forall e r a c f,
      rc_size c = ce_size e -> rc_dur c = ce_dur e -> rc_args c = ce_args e ->
      key_eqb e r a = false ->
      same_key {| rc_fo := fo r; rc_wh := wh r; rc_size := d_size r; rc_dur := d_dur r; rc_args := a;
                  rc_finalized := f |} c = false.
  Proof.
    intros e r a c f H1 H2 H3 Hk. unfold key_eqb in Hk. unfold same_key; cbn. rewrite H1, H2, H3.
    destruct (size_eqb (d_size r) (ce_size e)) eqn:E1; [|reflexivity].
    destruct (dur_eqb (d_dur r) (ce_dur e)) eqn:E2; [|reflexivity].
    apply size_eqb_eq in E1. apply dur_eqb_eq in E2. rewrite <- E1, <- E2 in Hk.
    assert (X1 : size_eqb (d_size r) (d_size r) = true) by (apply size_eqb_eq; reflexivity).
    assert (X2 : dur_eqb (d_dur r) (d_dur r) = true) by (apply dur_eqb_eq; reflexivity).
    rewrite X1, X2 in Hk. cbn in *. rewrite Z.eqb_sym. exact Hk.
  Qed.

  Lemma cinv_deliver : forall s f, cinv s -> closed s = false -> cinv (fst (deliver RS n s f)).
  Proof. intros s f H Hc. unfold deliver; cbn. unfold cinv; cbn. exact H. Qed.

  (** rendering the frame the render data designates, after a cache miss *)
  Lemma cinv_render_frame : forall s fno,
      cinv s -> closed s = false -> (cached s = true -> fno = fo (rd s)) ->
      (cached s = true ->
       match cache s fno with Some e => key_eqb e (rd s) (args s) = false | None => True end) ->
      cinv (fst (render_frame RS render n s fno)).
  Proof.
    intros s fno H Hc Hf Hm. unfold render_frame.
    destruct (render (rs s) (fo (rd s)) (wh (rd s)) (d_size (rd s)) (d_dur (rd s)) (args s)) as [res rs'].
    destruct (cached s) eqn:Hcd.
    - destruct (H Hcd) as (A & B & C). specialize (Hf eq_refl). specialize (Hm eq_refl). specialize (C Hc).
      assert (Hnr : no_repeat (log (gh (log_render RS s)))).
      { cbn. split; [|exact A]. rewrite <- Hf. pose proof (C fno) as Cf.
        destruct (cache s fno) as [e|] eqn:Ec.
        - destruct Cf as (c & Hl & H1 & H2 & H3). rewrite Hl.
          apply (key_eqb_false_same_key e (rd s) (args s) c (finalized (gh s)) H1 H2 H3 Hm).
        - rewrite Cf. exact I. }
      destruct res as [f| |e].
      + apply cinv_deliver; [|exact Hc].
        unfold cinv; cbn. intros _. split; [exact Hnr|]. split; [exact B|].
        intros _ i. cbn. unfold upd. rewrite <- Hf.
        destruct (i =? fno) eqn:Ei.
        * apply Z.eqb_eq in Ei. subst i. rewrite Z.eqb_refl. eexists. split; [reflexivity|]. cbn. auto.
        * rewrite Z.eqb_sym, Ei. apply (C i).
      + rewrite B. cbn [fst]. apply cinv_closed_intro. intros _. split; [exact Hnr | exact B].
      + cbn [fst]. apply cinv_closed_intro. intros _. split; [exact Hnr | exact B].
    - (* not cached: nothing is claimed *)
      assert (Hu : forall s', cached s' = false -> cinv s') by (intros s' E E'; congruence).
      destruct res as [f| |e].
      + apply Hu. unfold deliver; cbn. exact Hcd.
      + destruct (definite n); cbn [fst]; apply Hu; rewrite close_cached; cbn; exact Hcd.
      + cbn [fst]. apply Hu. rewrite close_cached. cbn. exact Hcd.
  Qed.

  Lemma cinv_body : forall s fno,
      cinv s -> closed s = false -> (cached s = true -> fno = fo (rd s)) ->
      cinv (fst (body RS render n s fno)).
  Proof.
    intros s fno H Hc Hf. unfold body.
    destruct (cached s) eqn:Hcd.
    - destruct (cache s fno) as [e|] eqn:Ec; [destruct (key_eqb e (rd s) (args s)) eqn:Ek|].
      + apply cinv_deliver; assumption.
      + apply cinv_render_frame; auto. intros _. rewrite Ec. exact Ek.
      + apply cinv_render_frame; auto. intros _. rewrite Ec. exact I.
    - apply cinv_render_frame; auto; rewrite Hcd; discriminate.
  Qed.

  (** operations other than [next] touch neither the log nor the cache *)
  Lemma cinv_step : forall s o, cinv s -> cinv (fst (step s o)).
  Proof.
    intros s o H. destruct o; cbn.
    - (* Next *)
      unfold next. destruct (closed s) eqn:Hc; [exact H|].
      assert (Hdef : cached s = true -> definite n = true) by (intros E; apply (H E)).
      assert (Hpe : cinv (fst (pass_end RS render n s))).
      { unfold pass_end.
        set (s1 := set_rd RS s {| fo := 0; wh := wh (rd s); d_size := d_size (rd s); d_dur := d_dur (rd s) |}).
        assert (H1 : cinv s1) by exact H.
        set (s2 := if 0 <? g_loop s1 then set_pub_loop RS (set_g_loop RS s1 (g_loop s1 - 1)) (g_loop s1 - 1) else s1).
        assert (H2 : cinv s2) by (unfold s2; destruct (0 <? g_loop s1); exact H1).
        assert (Hc2 : closed s2 = false) by (unfold s2; destruct (0 <? g_loop s1); exact Hc).
        assert (Hf2 : fo (rd s2) = 0) by (unfold s2; destruct (0 <? g_loop s1); reflexivity).
        destruct (g_loop s2 =? 0); [cbn [fst]; apply cinv_close; exact H2|].
        apply cinv_body; auto. }
      destruct (phase s).
      + destruct (g_loop s =? 0); [cbn [fst]; apply cinv_close; exact H|].
        destruct (_ <? _); [|exact Hpe].
        apply cinv_body; auto. intros E. rewrite (Hdef E). lia.
      + destruct (_ <? _); [|exact Hpe].
        apply cinv_body; auto. intros E. rewrite (Hdef E). reflexivity.
    - unfold seek. destruct (closed s) eqn:Hc; [exact H|]. destruct n.
      + destruct (_ && _); exact H.
      + destruct (_ || _); exact H.
    - unfold set_duration. destruct (closed s); [exact H|]. destruct d; [exact H|].
      destruct (_ <=? _); exact H.
    - unfold set_padding. destruct (closed s); exact H.
    - unfold set_render_args. destruct (closed s); [exact H|]. destruct a; exact H.
    - unfold set_render_size. destruct (closed s); exact H.
    - apply cinv_close; exact H.
    - apply cinv_close; exact H.
  Qed.

  Lemma cinv_run : forall ops s, cinv s -> cinv (run s ops).
  Proof.
    induction ops as [|o ops IH]; intros s H; [exact H|].
    cbn. apply IH. apply cinv_step. exact H.
  Qed.

  Lemma cinv_mk : forall c rs0 s, mk RS n term c rs0 = inl s -> cinv s.
  Proof.
    intros c rs0 s. unfold mk.
    destruct (match n with Some k => k <? 2 | None => false end); [discriminate|].
    destruct (c_loops c =? 0); [discriminate|].
    destruct (negb (cache_valid (c_cache c))); [discriminate|].
    destruct (c_args c); [|discriminate]. intros H; inversion H; subst. unfold cinv; cbn.
    intros Hcd. split; [exact I|]. split.
    - unfold cache_decision in Hcd. unfold definite. destruct n; [reflexivity|discriminate].
    - intros _ i. cbn. reflexivity.
  Qed.

  (** while the settings are unchanged, a cached frame is never rendered a second time:
      in every history of a caching iterator, two successive renders of the same frame
      differ in size, duration or arguments *)
  Theorem no_rerender_unchanged : forall c rs0 s ops,
      mk RS n term c rs0 = inl s -> cached s = true ->
      no_repeat (log (gh (run s ops))).
  Proof.
    intros c rs0 s ops Hs Hcd.
    assert (Hk : forall ops s, cached (run s ops) = cached s).
    { clear. induction ops as [|o ops IH]; intros s; [reflexivity|]. cbn.
      fold (run (fst (step s o)) ops). rewrite IH.
      assert (Hcl : forall s, cached (close RS s) = cached s) by (intros; apply close_cached).
      assert (Hb : forall s k, cached (fst (body RS render n s k)) = cached s).
      { intros s0 k. unfold body, render_frame, deliver.
        destruct (if cached s0 then match cache s0 k with Some e => if key_eqb e (rd s0) (args s0) then Some (ce_frame e) else None | None => None end else None); [reflexivity|].
        destruct (render _ _ _ _ _ _) as [[f| |e] r'].
        - destruct (cached s0) eqn:E; cbn; exact E.
        - destruct (definite n); cbn [fst]; rewrite Hcl; reflexivity.
        - cbn [fst]. rewrite Hcl. reflexivity. }
      destruct o; cbn.
      - unfold next. destruct (closed s); [reflexivity|].
        assert (Hpe : cached (fst (pass_end RS render n s)) = cached s).
        { unfold pass_end. match goal with |- context [if ?b =? 0 then _ else _] => destruct (b =? 0) end.
          - cbn [fst]. rewrite Hcl. destruct (0 <? _); reflexivity.
          - rewrite Hb. destruct (0 <? _); reflexivity. }
        destruct (phase s).
        + destruct (g_loop s =? 0); [cbn [fst]; apply Hcl|]. destruct (_ <? _); [apply Hb|apply Hpe].
        + destruct (_ <? _); [apply Hb|apply Hpe].
      - unfold seek. destruct (closed s); [reflexivity|]. destruct n.
        + destruct (_ && _); reflexivity.
        + destruct (_ || _); reflexivity.
      - unfold set_duration. destruct (closed s); [reflexivity|]. destruct d; [reflexivity|].
        destruct (_ <=? _); reflexivity.
      - unfold set_padding. destruct (closed s); reflexivity.
      - unfold set_render_args. destruct (closed s); [reflexivity|]. destruct a; reflexivity.
      - unfold set_render_size. destruct (closed s); reflexivity.
      - apply Hcl.
      - apply Hcl. }
    pose proof (cinv_run ops s (cinv_mk c rs0 s Hs)) as H.
    apply H. rewrite Hk. exact Hcd.
  Qed.

  (** ** when caching is enabled *)
  Theorem cache_decision_rule : forall c rs0 s,
      mk RS n term c rs0 = inl s ->
      (cached s = true <->
       exists k, n = Some k /\
                 (c_cache c = CBool true \/ exists v, c_cache c = CInt v /\ k <= v)).
  Proof.
    intros c rs0 s. unfold mk.
    destruct (match n with Some k => k <? 2 | None => false end); [discriminate|].
    destruct (c_loops c =? 0); [discriminate|].
    destruct (negb (cache_valid (c_cache c))); [discriminate|].
    destruct (c_args c); [|discriminate]. intros H; inversion H; subst; cbn. clear H.
    unfold cache_decision. destruct n as [k|].
    - destruct (c_cache c) as [b|v].
      + split; [intros ->; exists k; auto|]. intros (k' & _ & [Hb|(v & Hv & _)]); congruence.
      + split.
        * intros Hle. exists k. split; [reflexivity|]. right. exists v. split; [reflexivity|lia].
        * intros (k' & Hk & [Hb|(v' & Hv & Hle)]); [discriminate|]. inversion Hk; inversion Hv; subst. lia.
    - split; [discriminate|]. intros (k & Hk & _). discriminate.
  Qed.

  (** [draw] / [_animate_]: a single loop is never cached *)
  Theorem animate_cache_rule : forall loops c,
      animate_cache loops c = if loops =? 1 then CBool false else c.
  Proof. reflexivity. Qed.
End Cache.
