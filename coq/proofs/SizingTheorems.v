(** C04: the statements of props/C04.v, assembled from proofs/SizingProofs.v (arithmetic)
    and proofs/SizingHistory.v (histories). *)
From Coq Require Import ZArith QArith Lqa Lia List Bool.
From TI Require Import lib.FArith lib.FArithFacts model.Sizing model.SizingSpec
     proofs.SizingProofs proofs.SizingHistory.
Open Scope Z_scope.

Section Statements.
Context {FA : FloatArith} (SM : StandardModel FA).
Variables (fam : family) (e : env FA) (ow oh : Z) (frame : Z * Z).
Local Notation vs := (valid_size fam e ow oh).
Local Notation fits := (fits fam e ow oh frame).

Lemma mode_fit : forall w h, auto_mode w h = Some FIT -> Dom SM fam e ow oh frame ->
  let '(a, b) := vs w h frame in
  0 < a /\ 0 < b /\ a <= columns e frame /\ b <= lines e frame /\
  ((a = columns e frame /\
    nearP b (HX SM (pr_of fam e) ow oh (fwpx fam e frame) / QZ (chp fam e))) \/
   (b = lines e frame /\
    nearP a (WX SM (pr_of fam e) ow oh (fhpx fam e frame) / QZ (cwp fam e)))).
Proof.
  intros w h Hm D. rewrite (valid_size_mode fam e ow oh w h FIT frame Hm).
  exact (fit_spec SM fam e ow oh frame D).
Qed.

Lemma size_positive : forall w h, claimed SM fam e ow oh w h frame ->
  let '(a, b) := vs w h frame in 0 < a /\ 0 < b.
Proof.
  intros w h C.
  assert (Auto : forall m, auto_mode w h = Some m ->
            match m with
            | FIT | AUTO => Dom SM fam e ow oh frame
            | ORIGINAL => Dom0 SM e ow oh /\ (QZ oh * val SM (pr_of fam e) <= two 40)%Q
            | FIT_TO_WIDTH => Dom SM fam e ow oh frame /\
                              (HX SM (pr_of fam e) ow oh (fwpx fam e frame) <= two 40)%Q
            end -> let '(a, b) := vs w h frame in 0 < a /\ 0 < b).
  { intros m Hm Hc. rewrite (valid_size_mode fam e ow oh w h m frame Hm). destruct m.
    - pose proof (auto_spec SM fam e ow oh frame Hc) as S.
      destruct (vs (DSize AUTO) DNone frame). tauto.
    - pose proof (fit_spec SM fam e ow oh frame Hc) as S.
      destruct (vs (DSize FIT) DNone frame). tauto.
    - destruct Hc as [D Hb]. pose proof (fit_to_width_spec SM fam e ow oh frame D Hb) as S.
      destruct (vs (DSize FIT_TO_WIDTH) DNone frame) as [a b]. destruct S as (S1 & S2 & _).
      destruct (frame_cells SM _ _ _ _ _ D) as (C1 & _). lia.
    - destruct Hc as [D Hb]. pose proof (original_spec SM fam e ow oh frame D Hb) as S.
      destruct (vs (DSize ORIGINAL) DNone frame). tauto. }
  destruct w as [|wi|s|], h as [|hi|t|]; cbn [claimed auto_mode] in C; try contradiction.
  - apply (Auto FIT eq_refl C).
  - destruct C as (D & Hh & Hp & Hb).
    pose proof (given_height_spec SM fam e ow oh hi frame D Hh Hp Hb) as S.
    destruct (vs DNone (DInt hi) frame). destruct S as (S1 & S2 & _). lia.
  - apply (Auto t eq_refl). destruct t; exact C.
  - destruct C as (D & Hw & Hp & Hb).
    pose proof (given_width_spec SM fam e ow oh wi frame D Hw Hp Hb) as S.
    destruct (vs (DInt wi) DNone frame). destruct S as (S1 & S2 & _). lia.
  - cbn. destruct C. rewrite !or1_id by assumption. auto.
  - apply (Auto s eq_refl). destruct s; exact C.
Qed.

Lemma fit_within_frame : forall w h, auto_mode w h = Some FIT -> Dom SM fam e ow oh frame ->
  let '(a, b) := vs w h frame in a <= columns e frame /\ b <= lines e frame.
Proof.
  intros w h Hm D. pose proof (mode_fit w h Hm D) as S. destruct (vs w h frame). tauto.
Qed.

Lemma fit_touches_frame : forall w h, auto_mode w h = Some FIT -> Dom SM fam e ow oh frame ->
  let '(a, b) := vs w h frame in a = columns e frame \/ b = lines e frame.
Proof.
  intros w h Hm D. pose proof (mode_fit w h Hm D) as S. destruct (vs w h frame). tauto.
Qed.

Lemma auto_within_frame : forall w h, auto_mode w h = Some AUTO -> Dom SM fam e ow oh frame ->
  let '(a, b) := vs w h frame in a <= columns e frame /\ b <= lines e frame.
Proof.
  intros w h Hm D. rewrite (valid_size_mode fam e ow oh w h AUTO frame Hm).
  pose proof (auto_spec SM fam e ow oh frame D) as S.
  destruct (vs (DSize AUTO) DNone frame). tauto.
Qed.

Lemma fit_to_width_exact_m : forall w h, auto_mode w h = Some FIT_TO_WIDTH -> cell_ok e ->
  fst (vs w h frame) = columns e frame.
Proof.
  intros w h Hm Hc. rewrite (valid_size_mode fam e ow oh w h FIT_TO_WIDTH frame Hm).
  apply fit_to_width_exact. assumption.
Qed.

Lemma auto_original_iff_fits_m : forall w h, auto_mode w h = Some AUTO ->
  vs w h frame = if fits then vs (DSize ORIGINAL) DNone frame else vs (DSize FIT) DNone frame.
Proof.
  intros w h Hm. rewrite (valid_size_mode fam e ow oh w h AUTO frame Hm).
  apply auto_original_iff_fits.
Qed.

Lemma aspect_fit : forall w h, auto_mode w h = Some FIT -> Dom SM fam e ow oh frame ->
  let '(a, b) := vs w h frame in
  (a = columns e frame /\
   nearP b (HX SM (pr_of fam e) ow oh (fwpx fam e frame) / QZ (chp fam e))) \/
  (b = lines e frame /\
   nearP a (WX SM (pr_of fam e) ow oh (fhpx fam e frame) / QZ (cwp fam e))).
Proof.
  intros w h Hm D. pose proof (mode_fit w h Hm D) as S. destruct (vs w h frame). tauto.
Qed.

Lemma aspect_original : forall w h, auto_mode w h = Some ORIGINAL -> Dom0 SM e ow oh ->
  (QZ oh * val SM (pr_of fam e) <= two 40)%Q ->
  let '(a, b) := vs w h frame in
  nearP a (QZ ow / QZ (cwp fam e)) /\
  nearP b (QZ oh * val SM (pr_of fam e) / QZ (chp fam e)).
Proof.
  intros w h Hm D Hb. rewrite (valid_size_mode fam e ow oh w h ORIGINAL frame Hm).
  pose proof (original_spec SM fam e ow oh frame D Hb) as S.
  destruct (vs (DSize ORIGINAL) DNone frame). tauto.
Qed.

Lemma aspect_fit_to_width : forall w h, auto_mode w h = Some FIT_TO_WIDTH ->
  Dom SM fam e ow oh frame ->
  (HX SM (pr_of fam e) ow oh (fwpx fam e frame) <= two 40)%Q ->
  let '(a, b) := vs w h frame in
  a = columns e frame /\
  nearP b (HX SM (pr_of fam e) ow oh (fwpx fam e frame) / QZ (chp fam e)).
Proof.
  intros w h Hm D Hb. rewrite (valid_size_mode fam e ow oh w h FIT_TO_WIDTH frame Hm).
  pose proof (fit_to_width_spec SM fam e ow oh frame D Hb) as S.
  destruct (vs (DSize FIT_TO_WIDTH) DNone frame). tauto.
Qed.

Lemma aspect_given_width : forall wi, Dom0 SM e ow oh -> dim30 (px_of_cols fam e wi) ->
  0 < wi -> (HX SM (pr_of fam e) ow oh (px_of_cols fam e wi) <= two 40)%Q ->
  let '(a, b) := vs (DInt wi) DNone frame in
  a = wi /\ nearP b (HX SM (pr_of fam e) ow oh (px_of_cols fam e wi) / QZ (chp fam e)).
Proof.
  intros wi D Hw Hp Hb. pose proof (given_width_spec SM fam e ow oh wi frame D Hw Hp Hb) as S.
  destruct (vs (DInt wi) DNone frame). tauto.
Qed.

Lemma aspect_given_height : forall hi, Dom0 SM e ow oh -> dim30 (px_of_lines fam e hi) ->
  0 < hi -> (WX SM (pr_of fam e) ow oh (px_of_lines fam e hi) <= two 40)%Q ->
  let '(a, b) := vs DNone (DInt hi) frame in
  b = hi /\ nearP a (WX SM (pr_of fam e) ow oh (px_of_lines fam e hi) / QZ (cwp fam e)).
Proof.
  intros hi D Hh Hp Hb. pose proof (given_height_spec SM fam e ow oh hi frame D Hh Hp Hb) as S.
  destruct (vs DNone (DInt hi) frame). tauto.
Qed.

(** AUTO inherits the aspect clause of whichever mode it resolves to *)
Lemma aspect_auto : forall w h, auto_mode w h = Some AUTO -> Dom SM fam e ow oh frame ->
  let '(a, b) := vs w h frame in
  (fits = true /\ nearP a (QZ ow / QZ (cwp fam e)) /\
   nearP b (QZ oh * val SM (pr_of fam e) / QZ (chp fam e))) \/
  (fits = false /\
   ((a = columns e frame /\
     nearP b (HX SM (pr_of fam e) ow oh (fwpx fam e frame) / QZ (chp fam e))) \/
    (b = lines e frame /\
     nearP a (WX SM (pr_of fam e) ow oh (fhpx fam e frame) / QZ (cwp fam e))))).
Proof.
  intros w h Hm D. rewrite (auto_original_iff_fits_m w h Hm).
  destruct fits eqn:Ef.
  - (* it fits: the rounded scaled height is at most the frame's, so the bound holds *)
    unfold fits in Ef. apply andb_prop in Ef. destruct Ef as [E1 E2]. apply Z.leb_le in E2.
    destruct D as [D0 Hfw Hfh].
    assert (Hb : (QZ oh * val SM (pr_of fam e) <= two 40)%Q).
    { destruct D0 as [How Hoh Hc Hr].
      pose proof (pr_ok SM fam e Hc Hr) as Hpr.
      destruct (Qlt_le_dec (two 40) (QZ oh * val SM (pr_of fam e))) as [C|C]; [|exact C].
      exfalso.
      (* otherwise the float product is >= 2^39, its rounding exceeds the frame *)
      assert (A : Ap SM (fmul (ofZ oh) (pr_of fam e)) (QZ oh * val SM (pr_of fam e))
                     (L 1) (H 1) (itwo 32) (two 62)).
      { apply (Ap_mul_w SM _ _ _ _ _ _ _ _ _ _ _ _ _ _ _ _ (Ap_dim SM oh Hoh) (Ap_pr SM _ Hpr)).
        vm_compute; reflexivity. }
      destruct (Ap_pos SM _ _ _ _ _ _ A ltac:(vm_compute; reflexivity)) as (_ & _ & Lo & _).
      assert (Fa : finite SM (fmul (ofZ oh) (pr_of fam e))) by (destruct A; assumption).
      unfold original_hpx in E2. change (pixel_ratio fam e) with (pr_of fam e) in E2.
      rewrite (fround_rhe SM _ Fa) in E2.
      pose proof (rhe_lo (val SM (fmul (ofZ oh) (pr_of fam e)))) as Rl.
      destruct Hfh as [_ Hfh]. rewrite Zle_Qle in E2. rewrite Zlt_Qlt in Hfh.
      assert (two 40 * (1 # 2) - (1 # 2) <= QZ (2 ^ 30))%Q by lra.
      revert H. apply Qlt_not_le. apply Qltb_lt. vm_compute. reflexivity. }
    pose proof (original_spec SM fam e ow oh frame D0 Hb) as S.
    destruct (vs (DSize ORIGINAL) DNone frame) as [a b].
    left. split; [reflexivity|]. tauto.
  - pose proof (fit_spec SM fam e ow oh frame D) as S.
    destruct (vs (DSize FIT) DNone frame) as [a b].
    right. split; [reflexivity|]. tauto.
Qed.

End Statements.
