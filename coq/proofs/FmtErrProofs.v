(** C19 — which error a rejected specifier raises: proofs. *)
From Coq Require Import List Bool Arith NArith ZArith Permutation.
Import ListNotations.
From TI Require Import lib.Re lib.CRe gen.Regexes model.FmtSpec model.FmtErr.

(** * the call chain (parent first) raises what the documentation demands, for every
    hierarchy of levels and every text *)
Lemma chain_is_documented : forall lv t, chain lv t = doc_chain_error lv t.
Proof.
  induction lv as [|l up IH]; intro t; unfold doc_chain_error; cbn [chain sentence ranges_ok].
  - destruct (is_nil t); reflexivity.
  - destruct (l t) as [[parent checks] invalid].
    destruct (is_nil invalid); cbn [negb andb]; [|reflexivity].
    destruct (is_nil parent) eqn:Hp; cbn [orb].
    + destruct (forallb (fun b => b) checks); reflexivity.
    + rewrite IH. unfold doc_chain_error.
      destruct (sentence up parent); cbn [negb]; [|reflexivity].
      destruct (ranges_ok up parent); cbn [negb].
      * rewrite andb_true_r. destruct (forallb (fun b => b) checks); reflexivity.
      * rewrite andb_false_r. reflexivity.
Qed.

(** a text that is not a sentence is a StyleError whatever the field values are *)
Lemma nonsentence_is_style_error : forall lv t, sentence lv t = false -> chain lv t = Some EStyle.
Proof.
  intros lv t H. rewrite chain_is_documented. unfold doc_chain_error. rewrite H. reflexivity.
Qed.

(** total: the chain is silent exactly on the sentences whose fields are in range *)
Lemma chain_none_iff : forall lv t,
  chain lv t = None <-> (sentence lv t = true /\ ranges_ok lv t = true).
Proof.
  intros lv t. rewrite chain_is_documented. unfold doc_chain_error.
  destruct (sentence lv t), (ranges_ok lv t); cbn; split; intros H;
    try discriminate; try (destruct H; discriminate); auto.
Qed.

(** * independent of the order in which the own fields' checks are listed *)
Lemma forallb_id_perm : forall a b : list bool, Permutation a b ->
  forallb (fun x => x) a = forallb (fun x => x) b.
Proof.
  induction 1; cbn.
  - reflexivity.
  - rewrite IHPermutation. reflexivity.
  - destruct x, y; reflexivity.
  - congruence.
Qed.

Definition same_up_to_check_order (l l' : level) : Prop :=
  forall t, fst (fst (l t)) = fst (fst (l' t)) /\ snd (l t) = snd (l' t)
            /\ Permutation (snd (fst (l t))) (snd (fst (l' t))).

Lemma chain_check_order : forall l l' up t, same_up_to_check_order l l' ->
  chain (l :: up) t = chain (l' :: up) t.
Proof.
  intros l l' up t H. specialize (H t). cbn [chain].
  destruct (l t) as [[p c] e], (l' t) as [[p' c'] e']. cbn in H.
  destruct H as (-> & -> & HP). rewrite (forallb_id_perm _ _ HP). reflexivity.
Qed.

Lemma error_precedence_parent_first :
  (forall lv t, chain lv t = doc_chain_error lv t)
  /\ (forall lv t, sentence lv t = false -> chain lv t = Some EStyle)
  /\ (forall l l' up t, same_up_to_check_order l l' -> chain (l :: up) t = chain (l' :: up) t).
Proof.
  exact (conj chain_is_documented (conj nonsentence_is_style_error chain_check_order)).
Qed.

(** * the specification function is total on rejected specifiers *)
Lemma spec_error_total : forall sty s,
  (spec_error sty s = None <-> spec_accepts sty s = true)
  /\ (spec_accepts sty s = false -> exists k, spec_error sty s = Some k).
Proof.
  intros sty s. unfold spec_error, spec_accepts.
  destruct (main_sentence s) as [f|].
  - destruct (f_style f) as [t|].
    + destruct (parse_style sty t) as [sf|].
      * destruct (own_range_ok sf); split; try split; intros; try discriminate; eauto.
      * split; try split; intros; try discriminate; eauto.
    + split; try split; intros; try discriminate; eauto.
  - split; try split; intros; try discriminate; eauto.
Qed.

(** * 'own fields first' *)

Lemma sentence_chain_cases : forall lv t, sentence lv t = true ->
  chain lv t = None \/ chain lv t = Some ERange.
Proof.
  intros lv t H. rewrite chain_is_documented. unfold doc_chain_error. rewrite H. cbn.
  destruct (ranges_ok lv t); cbn; auto.
Qed.

(** it cannot be told from the code unless the text is wrong in two ways: it is not a
    sentence (for the parents) AND a field of a level is out of range *)
Lemma own_first_invisible : forall lv t,
  (sentence lv t = true \/ ranges_ok lv t = true) -> chain_own_first lv t = chain lv t.
Proof.
  induction lv as [|l up IH]; intros t H; cbn [chain chain_own_first]; [reflexivity|].
  cbn [sentence ranges_ok] in H.
  destruct (l t) as [[parent checks] invalid].
  destruct (is_nil invalid); cbn [negb andb] in *; [|reflexivity].
  destruct (is_nil parent) eqn:Hp; cbn [orb] in *.
  - destruct (forallb (fun b => b) checks); reflexivity.
  - destruct (forallb (fun b => b) checks) eqn:Hc; cbn [negb andb] in *.
    + rewrite IH by exact H. destruct (chain up parent); reflexivity.
    + destruct H as [H|H]; [|discriminate].
      destruct (sentence_chain_cases up parent H) as [E|E]; rewrite E; reflexivity.
Qed.

(** and it contradicts the documentation: kitty, "xz4294967296" (a leading portion no
    class accepts + a z-index beyond 2**31) *)
Definition two_faults : list N := [120; 122; 52; 50; 57; 52; 57; 54; 55; 50; 57; 54]%N.

Lemma own_first_refuted :
  sentence (levels Kitty) two_faults = false
  /\ chain (levels Kitty) two_faults = Some EStyle
  /\ chain_own_first (levels Kitty) two_faults = Some ERange
  /\ spec_error Kitty (43%N :: two_faults) = Some EStyle
  /\ impl_error Kitty (43%N :: two_faults) = Some EStyle
  /\ class_of ERange <> class_of EStyle.
Proof. repeat split; try (vm_compute; reflexivity). discriminate. Qed.

(** non-vacuity: specifiers with one fault each and a sentence *)
Example error_kinds_inhabited :
  spec_error Kitty [43; 122; 52; 50; 57; 52; 57; 54; 55; 50; 57; 54]%N = Some ERange   (* +z4294967296 *)
  /\ impl_error Kitty [43; 122; 52; 50; 57; 52; 57; 54; 55; 50; 57; 54]%N = Some ERange
  /\ spec_error Kitty [49; 46; 43; 122; 49]%N = Some EInvalid                          (* 1.+z1 *)
  /\ spec_error Kitty [43; 122; 49; 120]%N = Some EStyle                               (* +z1x *)
  /\ impl_error Kitty [43; 122; 49; 120]%N = Some EStyle
  /\ spec_error Kitty [43; 87; 122; 45; 55; 109; 49; 99; 57]%N = None                  (* +Wz-7m1c9 *)
  /\ impl_error Kitty [43; 87; 122; 45; 55; 109; 49; 99; 57]%N = None
  /\ spec_error Block [43; 76]%N = Some EStyle
  /\ impl_error ITerm2 [43; 120; 99; 57]%N = Some EStyle.
Proof. repeat split; vm_compute; reflexivity. Qed.
