(** Proofs for [model/IterPadCls.v]: the padding object handed to a render iterator by its CLASS,
    and the padded size across [set_render_size]. *)
From Coq Require Import List ZArith Bool Lia.
Import ListNotations.
From TI Require Import model.Iter model.IterSpec model.IterEnv model.IterPadCls
     proofs.IterProofs proofs.IterProofs2 proofs.IterEnvProofs.
Open Scope Z_scope.

(** ** the class of the padding object *)

(** what [Iter] / [IterSpec] do with the fields is the documented installation *)
Lemma resolve_is_doc : forall term o, resolve term (pp o) = doc_install_pad term o.
Proof.
  intros term [k [l t r b|w h ha va]]; unfold doc_install_pad, resolve, resolve_method; cbn [pp].
  - reflexivity.
  - destruct (relative (PAligned w h ha va)); reflexivity.
Qed.

(** the code's [isinstance] test: the documented installation, for every object *)
Lemma install_pad_is_doc : forall term o,
    wf_offered o = true -> install_pad term o = doc_install_pad term o.
Proof.
  intros term [k [l t r b|w h ha va]] H; unfold install_pad, doc_install_pad; cbn [pp pk] in *.
  - cbn [relative]. rewrite andb_false_r. reflexivity.
  - unfold wf_offered in H; cbn [pp pk] in H. apply eqb_prop in H. rewrite H. reflexivity.
Qed.

(** in the model the resolution depends on [relative] only: two objects with the same fields,
    whatever their classes, leave the same padding in force ... *)
Lemma relative_padding_resolved_whatever_its_class : forall term k k' p,
    wf_offered {| pk := k; pp := p |} = true -> wf_offered {| pk := k'; pp := p |} = true ->
    install_pad term {| pk := k; pp := p |} = install_pad term {| pk := k'; pp := p |}
    /\ install_pad term {| pk := k; pp := p |} = resolve term p.
Proof.
  intros term k k' p H H'. rewrite !install_pad_is_doc by assumption.
  split; [reflexivity|]. symmetry. exact (resolve_is_doc term {| pk := k; pp := p |}).
Qed.

(** ... and that padding never has relative dimensions left (no
    [RelativePaddingDimensionError] from [get_padded_size] / [pad] later) *)
Lemma installed_padding_usable : forall term o,
    wf_offered o = true -> usable (install_pad term o) = true.
Proof.
  intros term o H. rewrite install_pad_is_doc by assumption. clear H.
  destruct o as [k [l t r b|w h ha va]]; unfold doc_install_pad, usable; cbn [pp].
  - reflexivity.
  - destruct (relative (PAligned w h ha va)) eqn:E; [|now rewrite E].
    unfold resolve_method. rewrite E. cbn [relative]. apply negb_true_iff, negb_false_iff.
    apply andb_true_iff; split; apply Z.ltb_lt.
    + destruct (w <=? 0) eqn:W; [lia | apply Z.leb_gt in W; lia].
    + destruct (h <=? 0) eqn:W; [lia | apply Z.leb_gt in W; lia].
Qed.

(** EXCLUDED design, the exact-type test: a terminal-relative padding that is an instance of a
    SUBCLASS of [AlignedPadding] stays unresolved (unusable), against the documented installation *)
Definition ex_sub_relative : offeredp := {| pk := KAlignedSub; pp := PAligned 0 (-2) 1 1 |}.

Example exact_type_test_refuted :
  wf_offered ex_sub_relative = true /\
  install_pad (80, 30) ex_sub_relative = PAligned 80 28 1 1 /\
  doc_install_pad (80, 30) ex_sub_relative = PAligned 80 28 1 1 /\
  install_pad_exact_type (80, 30) ex_sub_relative = PAligned 0 (-2) 1 1 /\
  usable (install_pad_exact_type (80, 30) ex_sub_relative) = false /\
  padded_size (install_pad_exact_type (80, 30) ex_sub_relative) (2, 2) <>
  padded_size (doc_install_pad (80, 30) ex_sub_relative) (2, 2).
Proof. repeat split; vm_compute; discriminate. Qed.

(** the exact-type test agrees with the code on every other class *)
Lemma exact_type_test_differs_only_on_subclasses : forall term o,
    wf_offered o = true -> pk o <> KAlignedSub ->
    install_pad_exact_type term o = install_pad term o.
Proof.
  intros term [[] p] H N; try reflexivity. now elim N.
Qed.

Section PadClsProofs.
  Variable RS : Type.
  Variable render : RS -> Z -> whence -> size -> dur -> Z -> rres * RS.
  Variable n : option Z.

  (** [set_padding] with an object of ANY class: on an open iterator the documented padding is in
      force afterwards with the stored padded size that goes with it, nothing is yielded; on a
      finalized iterator FinalizedIteratorError and the WHOLE state is unchanged — there is no
      other error, and no rejected call changes anything *)
  Lemma set_padding_object_step : forall term (s : state RS) x,
      step RS render n term s (lowerp (PSetPadding x)) =
      if closed s then (s, OErr EFinalized)
      else (set_padded RS (set_pad RS s (doc_install_pad term x))
                       (padded_size (doc_install_pad term x) (d_size (rd s))), OOk).
  Proof.
    intros term s x. cbn [lowerp step]. unfold set_padding. rewrite resolve_is_doc. reflexivity.
  Qed.

  (** for EVERY history whose [set_padding] (and constructor) carry padding objects of any class:
      the trace of the code model is the trace of the documented machine *)
  Theorem padcls_history_refines_spec : forall term c x0 rs0 s a h,
      (cache_decision n (c_cache c) = false \/ render_det RS render) ->
      mk RS n term (with_pad c x0) rs0 = inl s ->
      spec_mk RS n term (with_pad c x0) rs0 = inl a ->
      trace RS render n term s (map lowerp h) = spec_trace RS render n term a (map lowerp h).
  Proof.
    intros term c x0 rs0 s a h Hm Hs Ha.
    apply (iter_refines_spec RS render n term (with_pad c x0) rs0); auto.
  Qed.

  (** construction: the padding in force is the documented installation of the object *)
  Lemma mk_installs_documented_padding : forall term c x0 rs0 s,
      mk RS n term (with_pad c x0) rs0 = inl s ->
      pad s = doc_install_pad term x0 /\ padded s = padded_size (doc_install_pad term x0) (c_size c).
  Proof.
    intros term c x0 rs0 s. unfold mk. cbn [with_pad c_loops c_cache c_args c_pad c_size c_dur c_owns c_frame].
    destruct (match n with Some k => k <? 2 | None => false end); [discriminate|].
    destruct (c_loops c =? 0); [discriminate|].
    destruct (negb (cache_valid (c_cache c))); [discriminate|].
    destruct (c_args c); [|discriminate].
    rewrite resolve_is_doc. intros H. injection H as <-. split; reflexivity.
  Qed.

  (** ** the padded size across [set_render_size] *)

  (** after the operation the stored padded size is [padded_size] of the CURRENT padding at the
      NEW size, whatever the old render size and the old padded size were; the padding itself
      does not change *)
  Lemma padded_size_after_set_render_size : forall term (s : state RS) sz,
      closed s = false ->
      let s' := fst (step RS render n term s (SetSize sz)) in
      padded s' = padded_size (pad s) sz /\ pad s' = pad s /\ d_size (rd s') = sz
      /\ snd (step RS render n term s (SetSize sz)) = OOk.
  Proof.
    intros term s sz H. cbn [step]. unfold set_render_size. rewrite H. cbn. repeat split.
  Qed.
End PadClsProofs.

(** an aligned padding leaves a size alone iff the size is not below its minimum in EITHER dimension *)
Lemma aligned_unpadded_iff : forall w h ha va sz,
    padded_size (PAligned w h ha va) sz = sz <->
    below_min_w (PAligned w h ha va) sz = false /\ below_min_h (PAligned w h ha va) sz = false.
Proof.
  intros w h ha va [a b]. cbn [padded_size below_min_w below_min_h fst snd]. split.
  - intros H. injection H as H1 H2. split; apply Z.ltb_ge; lia.
  - intros [H1 H2]. apply Z.ltb_ge in H1, H2. f_equal; lia.
Qed.

(** the shortcut "unpadded now = unpadded afterwards" is right for exact dimensions ... *)
Lemma shortcut_right_for_exact : forall l t r b old new,
    padded_after_resize_shortcut (PExact l t r b) (padded_size (PExact l t r b) old) old new =
    padded_size (PExact l t r b) new.
Proof.
  intros l t r b [ow oh] [nw nh]. unfold padded_after_resize_shortcut, size_eqb.
  cbn [padded_size fst snd].
  destruct ((l + ow + r =? ow) && (t + oh + b =? oh)) eqn:E; [|reflexivity].
  apply andb_true_iff in E. destruct E as [E1 E2]. apply Z.eqb_eq in E1, E2. f_equal; lia.
Qed.

(** ... and refuted for an aligned padding whose minimum is not larger than the OLD render size
    but larger than the NEW one, in either dimension separately *)
Example shortcut_refuted :
  (let p := PAligned 3 3 1 1 in
   padded_size p (4, 3) = (4, 3) /\
   padded_after_resize_shortcut p (padded_size p (4, 3)) (4, 3) (1, 1) = (1, 1) /\
   padded_size p (1, 1) = (3, 3)) /\
  (let p := PAligned 3 1 0 0 in        (* width only *)
   padded_after_resize_shortcut p (padded_size p (3, 2)) (3, 2) (2, 3) <> padded_size p (2, 3)) /\
  (let p := PAligned 1 3 2 2 in        (* height only *)
   padded_after_resize_shortcut p (padded_size p (2, 3)) (2, 3) (3, 2) <> padded_size p (3, 2)).
Proof. repeat split; vm_compute; discriminate. Qed.

(** non-vacuity: an open state, shrinking below the minimum then growing back *)
Definition pc_render (r : unit) (o : Z) (w : whence) (sz : size) (d : dur) (a : Z) : rres * unit :=
  (ROk {| rf_number := o; rf_duration := 1; rf_size := sz; rf_output := [o] |}, r).

Definition pc_cfg : config :=
  {| c_loops := 1; c_cache := CBool false; c_size := (4, 3); c_dur := DStatic 1; c_args := Some 0;
     c_pad := PExact 0 0 0 0; c_owns := true; c_frame := 0 |}.

Example shrink_below_minimum_example :
  exists s a,
    mk unit (Some 5) (80, 30) (with_pad pc_cfg {| pk := KAlignedSub; pp := PAligned 3 3 0 0 |}) tt = inl s /\
    spec_mk unit (Some 5) (80, 30) (with_pad pc_cfg {| pk := KAlignedSub; pp := PAligned 3 3 0 0 |}) tt = inl a /\
    map fst (trace unit pc_render (Some 5) (80, 30) s
                   (map lowerp [PPlain Next; PPlain (SetSize (1, 1)); PPlain Next;
                                PPlain (SetSize (3, 4)); PPlain Next;
                                PSetPadding ex_sub_relative; PPlain Next])) =
    [OFrame {| f_number := 0; f_duration := 1; f_size := (4, 3); f_output := [0]; f_pad := None |};
     OOk;
     OFrame {| f_number := 1; f_duration := 1; f_size := (3, 3); f_output := [1]; f_pad := Some (0, 0, 2, 2) |};
     OOk;
     OFrame {| f_number := 2; f_duration := 1; f_size := (3, 4); f_output := [2]; f_pad := None |};
     OOk;
     OFrame {| f_number := 3; f_duration := 1; f_size := (80, 28); f_output := [3]; f_pad := Some (38, 12, 39, 12) |}].
Proof.
  eexists; eexists. split; [reflexivity|]. split; [reflexivity|]. vm_compute. reflexivity.
Qed.

(** ** lowering through the installation functions (what the correspondence evaluates) *)

Lemma doc_installed_absolute : forall term o, relative (doc_install_pad term o) = false.
Proof.
  intros term o. generalize (installed_padding_usable term).
  destruct o as [k [l t r b|w h ha va]]; intros _; unfold doc_install_pad; cbn [pp].
  - reflexivity.
  - pose proof (installed_padding_usable term {| pk := KAligned; pp := PAligned w h ha va |} eq_refl) as H.
    rewrite install_pad_is_doc in H by reflexivity. unfold usable, doc_install_pad in H. cbn [pp] in H.
    now apply negb_true_iff in H.
Qed.

Lemma resolve_absolute : forall term p, relative p = false -> resolve term p = p.
Proof. intros term [l t r b|w h ha va] H; unfold resolve; [reflexivity | now rewrite H]. Qed.

(** [Iter.resolve] leaves an installed padding alone: handing [Iter] the installed padding or the
    fields of the object is the same *)
Lemma resolve_installed : forall term o,
    resolve term (doc_install_pad term o) = resolve term (pp o).
Proof.
  intros term o. rewrite (resolve_is_doc term o). apply resolve_absolute, doc_installed_absolute.
Qed.

Lemma lower_by_install_is_doc : forall term a,
    pop_wf a = true -> lower_by (install_pad term) a = lower_by (doc_install_pad term) a.
Proof. intros term [o|x] H; cbn; [reflexivity | now rewrite install_pad_is_doc]. Qed.

Section PadClsInstalled.
  Variable RS : Type.
  Variable render : RS -> Z -> whence -> size -> dur -> Z -> rres * RS.
  Variable n : option Z.

  Lemma set_padding_installed_step : forall term (s : state RS) x,
      wf_offered x = true ->
      step RS render n term s (lower_by (install_pad term) (PSetPadding x)) =
      step RS render n term s (lowerp (PSetPadding x)).
  Proof.
    intros term s x H. cbn [lower_by lowerp step]. unfold set_padding.
    rewrite install_pad_is_doc by assumption. rewrite resolve_installed. reflexivity.
  Qed.

  (** for EVERY history of well-formed padding objects of any class: the trace of the code (its
      [isinstance] test) is the trace of the documented machine under the documented rule
      (resolution by [relative] only) *)
  Theorem padcls_installed_history_refines_spec : forall term c x0 rs0 s a h,
      (cache_decision n (c_cache c) = false \/ render_det RS render) ->
      wf_offered x0 = true -> forallb pop_wf h = true ->
      mk RS n term (with_pad_by (install_pad term) c x0) rs0 = inl s ->
      spec_mk RS n term (with_pad_by (doc_install_pad term) c x0) rs0 = inl a ->
      trace RS render n term s (map (lower_by (install_pad term)) h) =
      spec_trace RS render n term a (map (lower_by (doc_install_pad term)) h).
  Proof.
    intros term c x0 rs0 s a h Hm Hw Hh Hs Ha.
    assert (E : map (lower_by (install_pad term)) h = map (lower_by (doc_install_pad term)) h).
    { apply map_ext_in. intros x Hx. apply lower_by_install_is_doc.
      rewrite forallb_forall in Hh. now apply Hh. }
    rewrite E.
    apply (iter_refines_spec RS render n term (with_pad_by (doc_install_pad term) c x0) rs0); auto.
    unfold with_pad_by in *. rewrite install_pad_is_doc in Hs by assumption. exact Hs.
  Qed.
End PadClsInstalled.
