(** Terminal-side half of C07: whatever the position at which draw() is cut, the stream of
    [model/DrawInt.v] (delivered prefix, [TCut], then the clean-up the code writes) leaves the
    terminal with its parser in the ground state, no chunked transmission pending, the cursor
    visible and the SGR attributes default.  Lemmas; [props/C07.v] states the theorems. *)
From Coq Require Import List ZArith Bool Lia.
Import ListNotations.
From TI Require Import lib.Term lib.TermFacts model.DrawInt.
Open Scope Z_scope.

Section P.
Variable lm : Z.

(** ** One step: what each class of token can do to the tracked components *)

Definition kitty_tx (x : tok) : bool :=
  match x with TKittyFirst _ _ _ | TKittyCont _ _ | TKittyEnd => true | _ => false end.
Definition str_cut (x : tok) : bool :=
  match x with TCut CutOsc | TCut CutApc => true | _ => false end.
Definition sgr_tok (x : tok) : bool :=
  match x with TSgr0 | TFg _ | TBg _ => true | _ => false end.
Definition is_hide (x : tok) : bool := match x with THide => true | _ => false end.

Lemma place_parser t k : parser (place t k) = parser t.
Proof. unfold place. destruct (kk_stay k); reflexivity. Qed.
Lemma place_pending t k : pending (place t k) = pending t.
Proof. unfold place. destruct (kk_stay k); reflexivity. Qed.
Lemma place_sgr t k : sgr (place t k) = sgr t.
Proof. unfold place. destruct (kk_stay k); reflexivity. Qed.
Lemma place_visible t k : visible (place t k) = visible t.
Proof. unfold place. destruct (kk_stay k); reflexivity. Qed.

(** only a kitty transmission token touches the pending chunked transmission *)
Lemma step_pending t x : kitty_tx x = false -> pending (step lm t x) = pending t.
Proof.
  intros H. unfold step. destruct (parser t) eqn:E.
  - destruct x; try discriminate H; simpl; try reflexivity.
    + destruct dnmc; reflexivity.
    + match goal with c : cut_kind |- _ => destruct c end; reflexivity.
  - destruct x; try discriminate H; simpl; try reflexivity.
    + destruct dnmc; reflexivity.
    + match goal with c : cut_kind |- _ => destruct c end; reflexivity.
  - destruct x; reflexivity.
Qed.

(** only a cut inside a string puts the parser into the string state *)
Lemma step_nostr t x : str_cut x = false -> parser t <> InStr -> parser (step lm t x) <> InStr.
Proof.
  intros H Hp. unfold step. destruct (parser t) eqn:E; [| |congruence].
  - destruct x; simpl; try (rewrite E; discriminate).
    + destruct (pending t); [simpl; rewrite E; discriminate|].
      destruct more; [simpl; rewrite E; discriminate|]. rewrite place_parser, E. discriminate.
    + destruct (pending t); [|simpl; rewrite E; discriminate].
      destruct more; [rewrite E; discriminate|]. rewrite place_parser. simpl. rewrite E. discriminate.
    + destruct dnmc; simpl; rewrite E; discriminate.
    + match goal with c : cut_kind |- _ => destruct c end; try discriminate H; simpl; discriminate.
  - destruct x; simpl; try discriminate; try (rewrite E; discriminate).
    + destruct (pending t); [simpl; discriminate|].
      destruct more; [simpl; discriminate|]. rewrite place_parser. simpl. discriminate.
    + destruct (pending t); [|simpl; discriminate].
      destruct more; [simpl; discriminate|]. rewrite place_parser. simpl. discriminate.
    + destruct dnmc; simpl; discriminate.
    + match goal with c : cut_kind |- _ => destruct c end; try discriminate H; simpl; discriminate.
Qed.

(** a plain token (C0 control or complete CSI sequence) keeps a ground parser ground *)
Lemma step_plain_ground t x : plain_tok x = true -> parser t = Ground -> parser (step lm t x) = Ground.
Proof.
  intros H Hp. unfold step. rewrite Hp. destruct x; try discriminate H; simpl; assumption.
Qed.

(** only SGR tokens change the attributes *)
Lemma step_sgr t x : sgr_tok x = false -> sgr (step lm t x) = sgr t.
Proof.
  intros H. unfold step. destruct (parser t) eqn:E.
  - destruct x; try discriminate H; simpl; try reflexivity.
    + destruct (pending t); [reflexivity|]. destruct more; [reflexivity|apply place_sgr].
    + destruct (pending t); [|reflexivity]. destruct more; [reflexivity|]. rewrite place_sgr. reflexivity.
    + destruct dnmc; reflexivity.
    + match goal with c : cut_kind |- _ => destruct c end; reflexivity.
  - destruct x; try discriminate H; simpl; try reflexivity.
    + destruct (pending t); [reflexivity|]. destruct more; [reflexivity|]. rewrite place_sgr. reflexivity.
    + destruct (pending t); [|reflexivity]. destruct more; [reflexivity|]. rewrite place_sgr. reflexivity.
    + destruct dnmc; reflexivity.
    + match goal with c : cut_kind |- _ => destruct c end; reflexivity.
  - destruct x; reflexivity.
Qed.

(** only HIDE_CURSOR hides the cursor *)
Lemma step_visible t x : is_hide x = false -> visible t = true -> visible (step lm t x) = true.
Proof.
  intros H Hv. unfold step. destruct (parser t) eqn:E.
  - destruct x; try discriminate H; simpl; try assumption; try reflexivity.
    + destruct (pending t); [assumption|]. destruct more; [assumption|]. rewrite place_visible. assumption.
    + destruct (pending t); [|assumption]. destruct more; [assumption|]. rewrite place_visible. assumption.
    + destruct dnmc; assumption.
    + match goal with c : cut_kind |- _ => destruct c end; assumption.
  - destruct x; try discriminate H; simpl; try assumption; try reflexivity.
    + destruct (pending t); [assumption|]. destruct more; [assumption|]. rewrite place_visible. assumption.
    + destruct (pending t); [|assumption]. destruct more; [assumption|]. rewrite place_visible. assumption.
    + destruct dnmc; assumption.
    + match goal with c : cut_kind |- _ => destruct c end; assumption.
  - destruct x; assumption.
Qed.

(** ** Streams *)

Lemma exec_pending ts : forall t, forallb (fun x => negb (kitty_tx x)) ts = true -> pending (exec lm t ts) = pending t.
Proof.
  induction ts as [|x ts IH]; intros t H; [reflexivity|].
  simpl in H. apply andb_true_iff in H. destruct H as [Hx H]. apply negb_true_iff in Hx.
  rewrite exec_cons, IH by assumption. apply step_pending. assumption.
Qed.

Lemma exec_nostr ts : forall t, forallb (fun x => negb (str_cut x)) ts = true -> parser t <> InStr ->
  parser (exec lm t ts) <> InStr.
Proof.
  induction ts as [|x ts IH]; intros t H Hp; [assumption|].
  simpl in H. apply andb_true_iff in H. destruct H as [Hx H]. apply negb_true_iff in Hx.
  rewrite exec_cons. apply IH; [assumption|]. apply step_nostr; assumption.
Qed.

Lemma exec_plain_ground ts : forall t, forallb plain_tok ts = true -> parser t = Ground ->
  parser (exec lm t ts) = Ground.
Proof.
  induction ts as [|x ts IH]; intros t H Hp; [assumption|].
  simpl in H. apply andb_true_iff in H. destruct H as [Hx H].
  rewrite exec_cons. apply IH; [assumption|]. apply step_plain_ground; assumption.
Qed.

Lemma exec_sgr ts : forall t, forallb (fun x => negb (sgr_tok x)) ts = true -> sgr (exec lm t ts) = sgr t.
Proof.
  induction ts as [|x ts IH]; intros t H; [reflexivity|].
  simpl in H. apply andb_true_iff in H. destruct H as [Hx H]. apply negb_true_iff in Hx.
  rewrite exec_cons, IH by assumption. apply step_sgr. assumption.
Qed.

Lemma exec_visible ts : forall t, forallb (fun x => negb (is_hide x)) ts = true -> visible t = true ->
  visible (exec lm t ts) = true.
Proof.
  induction ts as [|x ts IH]; intros t H Hv; [assumption|].
  simpl in H. apply andb_true_iff in H. destruct H as [Hx H]. apply negb_true_iff in Hx.
  rewrite exec_cons. apply IH; [assumption|]. apply step_visible; assumption.
Qed.

Lemma forallb_impl {A} (p q : A -> bool) l : (forall x, p x = true -> q x = true) -> forallb p l = true -> forallb q l = true.
Proof.
  intros Hpq H. apply forallb_forall. intros x Hx. apply Hpq. eapply forallb_forall in H; eassumption.
Qed.

Lemma forallb_firstn {A} (p : A -> bool) l n : forallb p l = true -> forallb p (firstn n l) = true.
Proof.
  revert n. induction l as [|x l IH]; intros [|n] H; simpl; try reflexivity.
  simpl in H. apply andb_true_iff in H. destruct H as [Hx H]. rewrite Hx. simpl. apply IH. assumption.
Qed.

Lemma forallb_nth_error {A} (p : A -> bool) l n x : forallb p l = true -> nth_error l n = Some x -> p x = true.
Proof.
  intros H Hn. apply nth_error_In in Hn. eapply forallb_forall in H; eassumption.
Qed.

(** the delivered part of an interrupted write of tokens satisfying [p] consists of tokens
    satisfying [p], plus possibly a cut admissible for one of them *)
Lemma cutw_forallb (p q : tok -> bool) w j c :
  forallb p w = true ->
  (forall x, p x = true -> q x = true) ->
  (forall x k, p x = true -> cut_ok x k = true -> q (TCut k) = true) ->
  forallb q (cutw w j c) = true.
Proof.
  intros Hw Hpq Hcut. unfold cutw. rewrite forallb_app. apply andb_true_iff. split.
  - apply forallb_impl with (p := p); [assumption|]. apply forallb_firstn. assumption.
  - destruct c as [k|]; [|reflexivity]. destruct (nth_error w j) as [x|] eqn:E; [|reflexivity].
    destruct (cut_ok x k) eqn:Ec; [|reflexivity]. simpl. rewrite (Hcut x k); [reflexivity| |assumption].
    eapply forallb_nth_error; eassumption.
Qed.

(** ** Recovery: from ANY parser state the style's handler + clean-up restores the terminal *)

Lemma tail_cases anim lines : old_anim_tail anim lines = [] \/ exists n, old_anim_tail anim lines = [TCud n].
Proof. unfold old_anim_tail, cud. destruct anim; auto. destruct (0 <? lines - 1); eauto. Qed.

(** kitty: ST ST + end-of-chunks, whatever the state *)
Lemma recover_kitty t anim lines :
  term_clean (exec lm t (handler SKitty ++ old_anim_tail anim lines ++ old_final)).
Proof.
  unfold term_clean, handler, old_final.
  destruct t as [r c0 a v sy p pe lg].
  destruct (tail_cases anim lines) as [-> | [n ->]]; destruct p; cbn; auto.
Qed.

(** iterm2: ST ST, whatever the parser state, when no kitty transmission is pending *)
Lemma recover_iterm t anim lines : pending t = None ->
  term_clean (exec lm t (handler SIterm ++ old_anim_tail anim lines ++ old_final)).
Proof.
  intros Hp. unfold term_clean, handler, old_final.
  destruct t as [r c0 a v sy p pe lg]. simpl in Hp. subst pe.
  destruct (tail_cases anim lines) as [-> | [n ->]]; destruct p; cbn; auto.
Qed.

(** block (no handler): the next escape sequence aborts a cut CSI *)
Lemma recover_plain t tail : parser t <> InStr -> pending t = None ->
  (tail = [] \/ exists n, tail = [TCud n]) ->
  term_clean (exec lm t (tail ++ old_final)).
Proof.
  intros Hs Hp Ht. unfold term_clean, old_final.
  destruct t as [r c0 a v sy p pe lg]. simpl in Hp, Hs. subst pe.
  destruct Ht as [-> | [n ->]]; destruct p; cbn; try congruence; auto.
Qed.

(** ** Old API *)

Definition safe (s : style) (t : term) : Prop :=
  match s with
  | SBlock => parser t <> InStr /\ pending t = None
  | SIterm => pending t = None
  | SKitty => True
  end.

Lemma plain_not_kitty x : plain_tok x = true -> negb (kitty_tx x) = true.
Proof. destruct x; try discriminate; reflexivity. Qed.
Lemma plain_not_strcut x : plain_tok x = true -> negb (str_cut x) = true.
Proof. destruct x; try discriminate; reflexivity. Qed.
Lemma plain_cut x k : plain_tok x = true -> cut_ok x k = true -> k = CutCsi.
Proof. destruct x; try discriminate; destruct k; try discriminate; reflexivity. Qed.

Lemma iterm_not_kitty x : tok_ok SIterm x = true -> negb (kitty_tx x) = true.
Proof. destruct x; try discriminate; reflexivity. Qed.

Lemma exec_safe s ts : forall t, forallb (tok_ok s) ts = true -> safe s t -> safe s (exec lm t ts).
Proof.
  intros t H Hs. destruct s; simpl in *.
  - destruct Hs as [Hp Hq]. split.
    + apply exec_nostr; [|assumption]. eapply forallb_impl; [|eassumption]. apply plain_not_strcut.
    + rewrite exec_pending; [assumption|]. eapply forallb_impl; [|eassumption]. apply plain_not_kitty.
  - exact I.
  - rewrite exec_pending; [assumption|]. eapply forallb_impl; [|eassumption]. apply iterm_not_kitty.
Qed.

Lemma exec_safe_cutw s w j c : forall t, forallb (tok_ok s) w = true -> safe s t -> safe s (exec lm t (cutw w j c)).
Proof.
  intros t H Hs. destruct s; simpl in *.
  - destruct Hs as [Hp Hq]. split.
    + apply exec_nostr; [|assumption].
      apply cutw_forallb with (p := plain_tok); [assumption|apply plain_not_strcut|].
      intros x k Hx Hk. rewrite (plain_cut x k Hx Hk). reflexivity.
    + rewrite exec_pending; [assumption|].
      apply cutw_forallb with (p := plain_tok); [assumption|apply plain_not_kitty|]. reflexivity.
  - exact I.
  - rewrite exec_pending; [assumption|].
    apply cutw_forallb with (p := tok_ok SIterm); [assumption|apply iterm_not_kitty|]. reflexivity.
Qed.

Lemma plain_ok s x : plain_tok x = true -> tok_ok s x = true.
Proof. destruct s; simpl; intros H; try rewrite H; reflexivity. Qed.

(** every write of a draw() of [frames_ok] frames consists of the style's tokens *)
Lemma old_ctop_ok s lines : forallb (tok_ok s) (old_ctop lines) = true.
Proof.
  unfold old_ctop, cuu. destruct (0 <? lines - 1); simpl;
    rewrite ?(plain_ok s TCR eq_refl), ?(plain_ok s (TCuu (lines - 1)) eq_refl); reflexivity.
Qed.

Lemma old_writes_ok s anim lines frames : frames_ok s frames = true ->
  forallb (forallb (tok_ok s)) (old_writes anim lines frames) = true.
Proof.
  intros H. unfold old_writes. simpl. rewrite (plain_ok s THide eq_refl). simpl.
  destruct frames as [|F0 Fs]; [reflexivity|]. unfold frames_ok in H.
  destruct anim.
  - assert (A : forall l, forallb (forallb (tok_ok s)) l = true ->
               forallb (forallb (tok_ok s)) (flat_map (fun F => [F; old_ctop lines]) l) = true).
    { induction l as [|F l IH]; intros Hl; [reflexivity|]. simpl in Hl. apply andb_true_iff in Hl. destruct Hl as [HF Hs].
      cbn [flat_map app forallb]. rewrite HF, old_ctop_ok. cbn [andb]. apply IH. assumption. }
    apply (A (F0 :: Fs)). assumption.
  - simpl in H. apply andb_true_iff in H. destruct H as [H0 _]. simpl. rewrite H0. reflexivity.
Qed.

Lemma concat_ok {A} (p : A -> bool) ls : forallb (forallb p) ls = true -> forallb p (concat ls) = true.
Proof.
  induction ls as [|l ls IH]; intros H; [reflexivity|]. simpl in *.
  apply andb_true_iff in H. destruct H as [Hl H]. rewrite forallb_app, Hl. simpl. apply IH. assumption.
Qed.

Lemma nth_ok {A} (p : A -> bool) ls k : forallb (forallb p) ls = true -> forallb p (nth k ls []) = true.
Proof.
  revert k. induction ls as [|l ls IH]; intros [|k] H; simpl; try reflexivity.
  - simpl in H. apply andb_true_iff in H. tauto.
  - simpl in H. apply andb_true_iff in H. apply IH. tauto.
Qed.

(** THE terminal-side theorem for the old API: for every style, still or animated, every
    frame list, every write [k], every cut position [j] and cut kind [c] *)
Theorem old_interrupted_terminal_clean :
  forall s anim lines frames k j c t,
    parser t = Ground -> pending t = None ->
    frames_ok s frames = true ->
    term_clean (exec lm t (old_interrupted s anim lines frames k j c)).
Proof.
  intros s anim lines frames k j c t Hg Hp Hf.
  unfold old_interrupted. rewrite !exec_app.
  pose proof (old_writes_ok s anim lines frames Hf) as Hws.
  destruct k as [|k].
  - (* the HIDE_CURSOR write: no handler, only the final clean-up *)
    simpl firstn. simpl concat. rewrite exec_nil. simpl nth. unfold old_recovery.
    assert (Hsafe : safe SBlock (exec lm t (cutw [THide] j c))).
    { apply exec_safe_cutw; [reflexivity|]. simpl. split; [congruence|assumption]. }
    destruct Hsafe as [H1 H2].
    apply (recover_plain _ [] H1 H2). left. reflexivity.
  - set (ws := old_writes anim lines frames) in *.
    assert (S0 : safe s t). { destruct s; simpl; auto. split; [congruence|assumption]. }
    assert (S1 : safe s (exec lm t (concat (firstn (S k) ws)))).
    { apply exec_safe; [|assumption]. apply concat_ok. apply forallb_firstn. assumption. }
    assert (S2 : safe s (exec lm (exec lm t (concat (firstn (S k) ws))) (cutw (nth (S k) ws []) j c))).
    { apply exec_safe_cutw; [|assumption]. apply nth_ok. assumption. }
    unfold old_recovery. destruct s; simpl in S2.
    + destruct S2 as [H1 H2]. simpl handler. rewrite app_nil_l.
      apply recover_plain; [assumption|assumption|]. apply tail_cases.
    + apply recover_kitty.
    + apply recover_iterm. assumption.
Qed.

(** ** New API *)

Section New.
Variable hnd : list tok.
(** the subclass's handler recovers the terminal from any state a cut text frame leaves *)
Hypothesis hnd_recovers : forall t, parser t <> InStr -> pending t = None ->
  parser (exec lm t hnd) = Ground /\ pending (exec lm t hnd) = None /\
  sgr (exec lm t hnd) = adefault /\ visible (exec lm t hnd) = visible t.

Definition idle (hide : bool) (t : term) : Prop :=
  parser t = Ground /\ pending t = None /\ sgr t = adefault /\ (hide = false -> visible t = true).

Lemma text_frame_plain f : text_frame f = true -> forallb plain_tok f = true.
Proof.
  unfold text_frame. intros H. apply andb_true_iff in H. destruct H as [H _].
  eapply forallb_impl; [|eassumption]. intros x Hx. apply andb_true_iff in Hx. tauto.
Qed.
Lemma text_frame_nohide f : text_frame f = true -> forallb (fun x => negb (is_hide x)) f = true.
Proof.
  unfold text_frame. intros H. apply andb_true_iff in H. destruct H as [H _].
  eapply forallb_impl; [|eassumption]. intros x Hx. apply andb_true_iff in Hx. destruct Hx as [_ Hx].
  destruct x; try reflexivity. discriminate.
Qed.

(** a complete text frame leaves an idle terminal idle *)
Lemma exec_text_frame hide f t : text_frame f = true -> idle hide t -> idle hide (exec lm t f).
Proof.
  intros Hf [Hg [Hp [Hs Hv]]].
  pose proof (text_frame_plain f Hf) as Hpl. pose proof (text_frame_nohide f Hf) as Hnh.
  repeat split.
  - apply exec_plain_ground; assumption.
  - rewrite exec_pending; [assumption|]. apply forallb_impl with (p := plain_tok); [apply plain_not_kitty|assumption].
  - unfold text_frame in Hf. apply andb_true_iff in Hf. destruct Hf as [_ Hl].
    destruct (rev f) as [|x r] eqn:Er; [discriminate|]. destruct x; try discriminate.
    assert (Ef : f = rev r ++ [TSgr0]). { rewrite <- (rev_involutive f), Er. reflexivity. }
    rewrite Ef, exec_app. rewrite Ef in Hpl. rewrite forallb_app in Hpl. apply andb_true_iff in Hpl.
    destruct Hpl as [Hpl _]. unfold exec at 1. simpl. unfold step.
    rewrite (exec_plain_ground _ _ Hpl Hg). reflexivity.
  - intros Hh. apply exec_visible; auto.
Qed.

(** so does a complete cursor-positioning write *)
Lemma exec_ctl hide a b t : idle hide t -> idle hide (exec lm t ([TCR] ++ cuu a ++ cuf b)).
Proof.
  intros [Hg [Hp [Hs Hv]]]. unfold cuu, cuf.
  destruct t as [r c0 at0 v sy p pe lg]. simpl in *. subst p pe at0.
  destruct (0 <? a), (0 <? b); cbn; repeat split; auto.
Qed.

Definition ctl_tok (x : tok) : bool :=
  match x with TCR | TCuu _ | TCuf _ | THide => true | _ => false end.
Lemma ctl_write_ok a b : forallb ctl_tok ([TCR] ++ cuu a ++ cuf b) = true.
Proof. unfold cuu, cuf. destruct (0 <? a), (0 <? b); reflexivity. Qed.

(** the writes before position [k] are complete: the terminal is idle (the cursor may be
    hidden when [hide]) *)
Lemma new_prefix_idle hide anim h pb pl frames : forallb text_frame frames = true ->
  forall k t, idle hide t ->
  idle hide (exec lm t (concat (map snd (firstn k (new_writes hide anim h pb pl frames))))).
Proof.
  intros Hf.
  assert (Hall : forall ws : list (bool * list tok), Forall (fun w => forall t, idle hide t -> idle hide (exec lm t (snd w))) ws ->
            forall k t, idle hide t -> idle hide (exec lm t (concat (map snd (firstn k ws))))).
  { induction ws as [|w ws IH]; intros HF [|k] t Ht; simpl; try assumption.
    inversion HF; subst. rewrite exec_app. apply IH; auto. }
  apply Hall. unfold new_writes. apply Forall_app. split.
  - destruct hide; [|constructor]. constructor; [|constructor].
    intros t [Hg [Hp [Hs Hv]]]. destruct t as [r c0 at0 v sy p pe lg]. simpl in *. subst p pe at0.
    unfold idle. cbn. repeat split; auto.
  - destruct frames as [|F0 Fs]; [constructor|]. simpl in Hf. apply andb_true_iff in Hf. destruct Hf as [H0 Hs].
    destruct anim.
    + constructor; [intros t Ht; apply exec_text_frame; assumption|].
      constructor; [intros t Ht; apply exec_ctl; assumption|].
      induction Fs as [|F Fs IH]; [constructor|]. simpl in Hs. apply andb_true_iff in Hs. destruct Hs as [HF Hs].
      simpl. constructor; [intros t Ht; apply exec_text_frame; assumption|].
      constructor; [intros t Ht; apply exec_ctl; assumption|]. apply IH. assumption.
    + constructor; [|constructor]. intros t Ht. apply exec_text_frame; assumption.
Qed.

(** classification of the k-th write *)
Lemma new_write_kind hide anim h pb pl frames k : forallb text_frame frames = true ->
  let w := nth k (new_writes hide anim h pb pl frames) (false, []) in
  (fst w = true /\ text_frame (snd w) = true) \/ (fst w = false /\ forallb ctl_tok (snd w) = true).
Proof.
  intros Hf.
  assert (Hall : forall ws : list (bool * list tok), Forall (fun w => (fst w = true /\ text_frame (snd w) = true) \/
                                        (fst w = false /\ forallb ctl_tok (snd w) = true)) ws ->
            forall k, let w := nth k ws (false, []) in
              (fst w = true /\ text_frame (snd w) = true) \/ (fst w = false /\ forallb ctl_tok (snd w) = true)).
  { induction ws as [|w ws IH]; intros HF [|k0]; simpl; auto.
    - inversion HF; subst. assumption.
    - inversion HF; subst. apply IH. assumption. }
  apply Hall. unfold new_writes. apply Forall_app. split.
  - destruct hide; [|constructor]. constructor; [|constructor]. right. split; reflexivity.
  - destruct frames as [|F0 Fs]; [constructor|]. simpl in Hf. apply andb_true_iff in Hf. destruct Hf as [H0 Hs].
    destruct anim.
    + constructor; [left; split; [reflexivity|assumption]|].
      constructor; [right; split; [reflexivity|apply ctl_write_ok]|].
      induction Fs as [|F Fs IH]; [constructor|]. simpl in Hs. apply andb_true_iff in Hs. destruct Hs as [HF Hs].
      simpl. constructor; [left; split; [reflexivity|assumption]|].
      constructor; [right; split; [reflexivity|apply ctl_write_ok]|]. apply IH. assumption.
    + constructor; [|constructor]. left. split; [reflexivity|assumption].
Qed.

(** with hide_cursor = False no write contains HIDE_CURSOR *)
Lemma new_writes_nohide anim h pb pl frames k : forallb text_frame frames = true ->
  forallb (fun x => negb (is_hide x)) (snd (nth k (new_writes false anim h pb pl frames) (false, []))) = true.
Proof.
  intros Hf. unfold new_writes. simpl app.
  assert (Hall : forall ws : list (bool * list tok), Forall (fun w => forallb (fun x => negb (is_hide x)) (snd w) = true) ws ->
            forall k, forallb (fun x => negb (is_hide x)) (snd (nth k ws (false, []))) = true).
  { induction ws as [|w0 ws IH]; intros HF [|k0]; simpl; auto; inversion HF; subst; auto. }
  apply Hall.
  assert (Hc : forall a b, forallb (fun x => negb (is_hide x)) ([TCR] ++ cuu a ++ cuf b) = true).
  { intros a b. unfold cuu, cuf. destruct (0 <? a), (0 <? b); reflexivity. }
  destruct frames as [|F0 Fs]; [constructor|].
  simpl in Hf. apply andb_true_iff in Hf. destruct Hf as [H0 Hfs].
  destruct anim.
  - constructor; [apply text_frame_nohide; assumption|]. constructor; [apply Hc|].
    clear H0. induction Fs as [|F Fs IH]; [constructor|]. simpl in Hfs. apply andb_true_iff in Hfs. destruct Hfs as [HF Hfs].
    simpl. constructor; [apply text_frame_nohide; assumption|]. constructor; [apply Hc|]. apply IH. assumption.
  - constructor; [apply text_frame_nohide; assumption|constructor].
Qed.

(** the clean-up after the handler position: cursor down (maybe), "\n", SHOW_CURSOR (maybe) *)
Definition new_tail (hide anim : bool) (h pb : Z) (k : nat) : list tok :=
  (if anim && ffw hide k then cud (h + pb - 1) else []) ++ new_final hide.

Lemma new_tail_props hide anim h pb k t :
  parser t <> InStr -> pending t = None -> sgr t = adefault -> (hide = false -> visible t = true) ->
  let t' := exec lm t (new_tail hide anim h pb k) in
  parser t' <> InStr /\ pending t' = None /\ visible t' = true /\ sgr t' = adefault /\
  (hide = true \/ parser t = Ground -> parser t' = Ground).
Proof.
  intros Hn Hp Hs Hv. unfold new_tail, new_final, cud.
  destruct t as [r c0 at0 v sy p pe lg]. simpl in *. subst pe at0.
  destruct (anim && ffw hide k), (0 <? h + pb - 1), hide, p; cbn;
    repeat split; auto; try congruence; try discriminate;
    intros [H|H]; congruence.
Qed.

(** THE terminal-side theorem for the new API (text renderables) *)
Theorem new_interrupted_terminal_clean :
  forall hide anim h pb pl frames k j c inwrite t,
    parser t = Ground -> pending t = None -> sgr t = adefault -> visible t = true ->
    forallb text_frame frames = true ->
    let w := nth k (new_writes hide anim h pb pl frames) (false, []) in
    let t' := exec lm t (new_interrupted hnd hide anim h pb pl frames k j c inwrite) in
    parser t' <> InStr /\ pending t' = None /\ visible t' = true /\ sgr t' = adefault /\
    (hide = true \/ inwrite = false \/ c = None \/ fst w = true -> parser t' = Ground).
Proof.
  intros hide anim h pb pl frames k j c inwrite t Hg Hp Hs Hv Hf w t'.
  subst t'. unfold new_interrupted. fold w. rewrite !exec_app.
  assert (I0 : idle hide t) by (repeat split; auto).
  pose proof (new_prefix_idle hide anim h pb pl frames Hf k t I0) as I1.
  set (t1 := exec lm t (concat (map snd (firstn k (new_writes hide anim h pb pl frames))))) in *.
  destruct I1 as [G1 [P1 [S1 V1]]].
  unfold new_recovery. rewrite exec_app. fold (new_tail hide anim h pb k).
  destruct inwrite.
  - (* the fault is inside write k (or its flush) *)
    destruct (new_write_kind hide anim h pb pl frames k Hf) as [[Hfr Htf] | [Hfr Hct]]; fold w in Hfr, Htf || fold w in Hfr, Hct.
    + (* a render-output write: the handler runs *)
      rewrite Hfr. simpl andb. cbv iota.
      set (t2 := exec lm t1 (cutw (snd w) j c)).
      assert (N2 : parser t2 <> InStr).
      { apply exec_nostr; [|congruence].
        apply cutw_forallb with (p := plain_tok); [apply text_frame_plain; assumption|apply plain_not_strcut|].
        intros x k0 Hx Hk. rewrite (plain_cut x k0 Hx Hk). reflexivity. }
      assert (P2 : pending t2 = None).
      { unfold t2. rewrite exec_pending; [assumption|].
        apply cutw_forallb with (p := plain_tok); [apply text_frame_plain; assumption|apply plain_not_kitty|]. reflexivity. }
      assert (V2 : hide = false -> visible t2 = true).
      { intros Hh. apply exec_visible; [|auto].
        apply cutw_forallb with (p := fun x => negb (is_hide x)); [apply text_frame_nohide; assumption|auto|]. reflexivity. }
      destruct (hnd_recovers t2 N2 P2) as [G3 [P3 [S3 V3]]].
      assert (N3 : parser (exec lm t2 hnd) <> InStr) by congruence.
      assert (V3' : hide = false -> visible (exec lm t2 hnd) = true) by (intros Hh; rewrite V3; auto).
      pose proof (new_tail_props hide anim h pb k _ N3 P3 S3 V3') as [A [B [C [D E]]]].
      repeat split; auto.
    + (* a cursor / HIDE_CURSOR write: no handler; nothing in it touches the attributes *)
      rewrite Hfr. simpl andb. cbv iota. rewrite exec_nil.
      set (t2 := exec lm t1 (cutw (snd w) j c)).
      assert (Hplain : forall x, ctl_tok x = true -> plain_tok x = true) by (intros x; destruct x; try discriminate; reflexivity).
      assert (Hpl : forallb plain_tok (snd w) = true) by (eapply forallb_impl; eassumption).
      assert (N2 : parser t2 <> InStr).
      { apply exec_nostr; [|congruence].
        apply cutw_forallb with (p := plain_tok); [assumption|apply plain_not_strcut|].
        intros x k0 Hx Hk. rewrite (plain_cut x k0 Hx Hk). reflexivity. }
      assert (P2 : pending t2 = None).
      { unfold t2. rewrite exec_pending; [assumption|].
        apply cutw_forallb with (p := plain_tok); [assumption|apply plain_not_kitty|]. reflexivity. }
      assert (S2 : sgr t2 = adefault).
      { unfold t2. rewrite exec_sgr; [assumption|].
        apply cutw_forallb with (p := ctl_tok); [assumption|intros x; destruct x; try discriminate; reflexivity|]. reflexivity. }
      assert (V2 : hide = false -> visible t2 = true).
      { intros Hh. apply exec_visible; [|auto]. unfold cutw. rewrite forallb_app. apply andb_true_iff. split.
        - (* with hide = false no write contains HIDE_CURSOR *)
          apply forallb_firstn. subst w. rewrite Hh. apply new_writes_nohide. assumption.
        - destruct c as [k0|]; [|reflexivity]. destruct (nth_error (snd w) j); [|reflexivity]. destruct (cut_ok t0 k0); reflexivity. }
      pose proof (new_tail_props hide anim h pb k _ N2 P2 S2 V2) as [A [B [C [D E]]]].
      repeat split; auto.
      intros [H|[H|[H|H]]]; try congruence; [apply E; auto|].
      (* no cut: the delivered prefix is complete control sequences *)
      apply E. right. subst c. unfold t2, cutw. rewrite app_nil_r.
      apply exec_plain_ground; [apply forallb_firstn; assumption|assumption].
  - (* the fault is between two writes (render / sleep): nothing is cut, no handler *)
    rewrite andb_false_r. rewrite !exec_nil.
    assert (N1 : parser t1 <> InStr) by congruence.
    pose proof (new_tail_props hide anim h pb k _ N1 P1 S1 V1) as [A [B [C [D E]]]].
    repeat split; auto.
Qed.

End New.

(** two handlers that satisfy the hypothesis: the one the documentation hints at (CSI 0 m)
    and the one of the instrumented renderable of the fault enumeration (ST CSI 0 m) *)
Lemma hint_handler_recovers : forall t, parser t <> InStr -> pending t = None ->
  parser (exec lm t [TSgr0]) = Ground /\ pending (exec lm t [TSgr0]) = None /\
  sgr (exec lm t [TSgr0]) = adefault /\ visible (exec lm t [TSgr0]) = visible t.
Proof.
  intros t Hn Hp. destruct t as [r c0 at0 v sy p pe lg]. simpl in *. subst pe.
  destruct p; cbn; try congruence; auto.
Qed.
Lemma text_handler_recovers : forall t, parser t <> InStr -> pending t = None ->
  parser (exec lm t [TSt; TSgr0]) = Ground /\ pending (exec lm t [TSt; TSgr0]) = None /\
  sgr (exec lm t [TSt; TSgr0]) = adefault /\ visible (exec lm t [TSt; TSgr0]) = visible t.
Proof.
  intros t Hn Hp. destruct t as [r c0 at0 v sy p pe lg]. simpl in *. subst pe.
  destruct p; cbn; try congruence; auto.
Qed.

End P.

(** ** Non-vacuity: concrete cuts *)

Definition kchunk1 : tok := TKittyFirst {| kk_cols := 4; kk_rows := 2; kk_z := 0; kk_stay := true |} true 4096.
Definition kframe : list tok := [kchunk1; TKittyCont true 4096; TKittyCont false 100; TEch 4; TCuf 4; TLF; TEch 4; TCuf 4].

(** a cut inside the payload of the second chunk of a chunked kitty transmission: the
    terminal is in the string state with a transmission pending before the handler... *)
Example kitty_cut_state :
  let t := exec 0 origin ([THide] ++ cutw kframe 1 (Some CutApc)) in
  parser t = InStr /\ pending t <> None /\ visible t = false.
Proof. vm_compute. repeat split; discriminate. Qed.
(** ... and clean after it *)
Example kitty_cut_recovers :
  term_clean (exec 0 origin (old_interrupted SKitty false 2 [kframe] 1 1 (Some CutApc))).
Proof. vm_compute. repeat split. Qed.
(** without the handler it would not be (what the theorem's case analysis really needs) *)
Example kitty_cut_needs_handler :
  parser (exec 0 origin ([THide] ++ cutw kframe 1 (Some CutApc) ++ old_final)) = InStr.
Proof. vm_compute. reflexivity. Qed.

Definition iframe : list tok := [TIterm 4 2 false 77 77].
Example iterm_cut_state :
  parser (exec 0 origin ([THide] ++ cutw iframe 0 (Some CutOsc))) = InStr.
Proof. vm_compute. reflexivity. Qed.
(** the second frame of an animation (writes: HIDE, F0, "\r" CUU, F1, ...) cut inside its OSC *)
Example iterm_anim_cut_state :
  parser (exec 0 origin (concat (firstn 3 (old_writes true 2 [iframe; iframe])) ++ cutw iframe 0 (Some CutOsc))) = InStr.
Proof. vm_compute. reflexivity. Qed.
Example iterm_cut_recovers :
  term_clean (exec 0 origin (old_interrupted SIterm true 2 [iframe; iframe] 3 0 (Some CutOsc))).
Proof. vm_compute. repeat split. Qed.

Definition bframe : list tok := [TBg (0, 10, 20); TChar GSpace; TChar GSpace; TSgr0; TLF; TBg (0, 10, 20); TChar GSpace; TChar GSpace; TSgr0].
(** a cut inside a CSI (the second SGR colour sequence) with the colour of the first still set *)
Example block_cut_state :
  let t := exec 0 origin ([THide] ++ cutw bframe 5 (Some CutCsi)) in
  parser t = InCsi /\ sgr t = adefault /\ visible t = false.
Proof. vm_compute. repeat split. Qed.
Example block_cut_state_coloured :
  let t := exec 0 origin ([THide] ++ cutw bframe 3 (Some CutCsi)) in
  parser t = InCsi /\ sgr t <> adefault.
Proof. vm_compute. split; [reflexivity|discriminate]. Qed.
Example block_cut_recovers :
  term_clean (exec 0 origin (old_interrupted SBlock false 2 [bframe] 1 3 (Some CutCsi))).
Proof. vm_compute. repeat split. Qed.
Example block_frame_ok : frames_ok SBlock [bframe] = true /\ frames_ok SIterm [iframe] = true.
Proof. vm_compute. auto. Qed.

(** a cut inside the CUU of the trailing "\r" + cursor_up(lines - 1) write of a frame (kitty,
    3-line box): an open CSI, closed by the handler's ST *)
Example ctop_cut_state :
  let ws := old_writes true 3 [kframe; kframe] in
  nth 2 ws [] = [TCR; TCuu 2] /\
  parser (exec 0 origin (concat (firstn 2 ws) ++ cutw (nth 2 ws []) 1 (Some CutCsi))) = InCsi.
Proof. vm_compute. split; reflexivity. Qed.
Example ctop_cut_recovers :
  term_clean (exec 0 origin (old_interrupted SKitty true 3 [kframe; kframe] 2 1 (Some CutCsi))) /\
  term_clean (exec 0 origin (old_interrupted SBlock true 3 [bframe; bframe] 2 1 (Some CutCsi))).
Proof. vm_compute. repeat split. Qed.
(** a one-line box: no cursor_up after a frame, no cursor_down in the clean-up *)
Example one_line_box :
  old_interrupted SBlock true 1 [[TChar GSpace]; [TChar GSpace]] 3 0 None
  = [THide; TChar GSpace; TCR] ++ old_final.
Proof. vm_compute. reflexivity. Qed.

(** new API: a text frame cut inside its SGR sequence, handler = ST CSI 0 m *)
Definition tframe : list tok := [TFg (10, 20, 30); TChar (GOther 48); TChar (GOther 48); TSgr0; TLF; TFg (10, 20, 30); TChar (GOther 48); TChar (GOther 48); TSgr0].
Example text_frame_ok : text_frame tframe = true.
Proof. vm_compute. reflexivity. Qed.
Example text_cut_recovers :
  term_clean (exec 0 origin (new_interrupted [TSt; TSgr0] false true 2 0 0 [tframe; tframe] 2 3 (Some CutCsi) true)).
Proof. vm_compute. repeat split. Qed.
(** without the handler (the behaviour before the pending fix when the write raises an
    Exception rather than KeyboardInterrupt) the colour stays set and the CSI open *)
Example text_cut_without_handler :
  let t := exec 0 origin (new_interrupted [] false true 2 0 0 [tframe; tframe] 2 3 (Some CutCsi) true) in
  sgr t <> adefault.
Proof. vm_compute. discriminate. Qed.
(** the one residue the new API leaves (hide_cursor = False): a cursor-positioning write cut
    inside its CSI before [first_frame_written] is followed by "\n" only: an open CSI, which
    the next escape sequence or printable character ends *)
Example new_ctl_cut_residue :
  parser (exec 0 origin (new_interrupted [TSt; TSgr0] false true 2 0 0 [tframe; tframe] 1 1 (Some CutCsi) true)) = InCsi.
Proof. vm_compute. reflexivity. Qed.
