(** C09 (round 6) — the image iterator over a stateful source (model/ImgIterSrc.v):

      [src_erase]            with [handover] and [render] keeping an invariant of the source under
                             which rendering is the pure [fmt_frame], the caller sees exactly the
                             trace of model/ImgIter.v (the iterator of C11);
      [uncached_requests]    the non-caching iterator requests, at every operation, exactly what
                             the specification renders there ([want]);
      [cached_requests_sub]  the render requests of the caching iterator are, operation by
                             operation, a sub-list of those of the non-caching one: whatever a
                             re-render in a cached loop needs, the non-caching iterator needs at
                             the same yield;
      [kept_source_transparent] / [released_source_refuted]
                             a closable source: kept open (the code) caching is invisible;
                             released once every frame is cached, a size change in a later loop
                             makes the caching iterator raise where the other yields.
    Lemmas only; restated in props/C09.v. *)
From Coq Require Import List ZArith Bool Arith Lia.
Import ListNotations.
From TI Require Import model.ImgIter model.ImgIterSpec model.ImgIterSrc proofs.ImgIterProofs.

Set Implicit Arguments.
Local Open Scope Z_scope.

(* ====================================================================== *)
(** * Erasing the source *)

Section Erase.
  Variables Str Size R : Type.
  Variable fmt_frame : nat -> Size -> res Str.
  Variable render : R -> nat -> Size -> res Str * R.
  Variable hash : Size -> Z.
  Variable N : nat.
  Variable cached : bool.
  Variable handover : R -> R.
  Variable P : R -> Prop.

  Hypothesis Hrender : forall r k z, P r -> fst (render r k z) = fmt_frame k z /\ P (snd (render r k z)).
  Hypothesis Hhand : forall r, P r -> P (handover r).

  Notation st := (st Str Size).

  Definition proj (x : st * R * outcome Str) : st * outcome Str := (fst (fst x), snd x).
  Definition srcof (x : st * R * outcome Str) : R := snd (fst x).

  Lemma p2_erase : forall fuel s r, P r ->
    proj (p2_innerS render hash N fuel s r) = p2_inner fmt_frame hash N fuel s
    /\ P (srcof (p2_innerS render hash N fuel s r)).
  Proof.
    induction fuel as [|fu IH]; intros s r Hr; cbn [p2_innerS p2_inner];
      (destruct (n s <? Z.of_nat N);
       [ pose proof (Hrender (Z.to_nat (n s)) (size s) Hr) as (Hf & Hp);
         destruct (render r (Z.to_nat (n s)) (size s)) as [x r'] eqn:E; simpl in Hf, Hp; subst x;
         destruct (nth (Z.to_nat (n s)) (cache s) None) as [[f h]|];
         [ destruct (hash (size s) =? h) |];
         try (split; [reflexivity | exact Hr]);
         destruct (fmt_frame (Z.to_nat (n s)) (size s)); split; try reflexivity; exact Hp
       | destruct (rep (wrap s) =? 0); [split; [reflexivity | exact Hr] |] ]).
    - split; [reflexivity | exact Hr].
    - apply IH. exact Hr.
  Qed.

  Lemma p2o_erase : forall fuel s r, P r ->
    proj (p2_outerS render hash N fuel s r) = p2_outer fmt_frame hash N fuel s
    /\ P (srcof (p2_outerS render hash N fuel s r)).
  Proof.
    intros fuel s r Hr. unfold p2_outerS, p2_outer. destruct (rep s =? 0).
    - split; [reflexivity | exact Hr].
    - apply p2_erase. exact Hr.
  Qed.

  Lemma p1_erase : forall fuel s r, P r ->
    proj (p1_runS render hash N cached handover fuel s r) = p1_run fmt_frame hash N cached fuel s
    /\ P (srcof (p1_runS render hash N cached handover fuel s r)).
  Proof.
    induction fuel as [|fu IH]; intros s r Hr; cbn [p1_runS p1_run];
      (destruct (rep s =? 0); [split; [reflexivity | exact Hr] |]);
      pose proof (Hrender (Z.to_nat (n s)) (size s) Hr) as (Hf & Hp);
      destruct (render r (Z.to_nat (n s)) (size s)) as [x r'] eqn:E; simpl in Hf, Hp; subst x;
      destruct (fmt_frame (Z.to_nat (n s)) (size s));
      try (split; [reflexivity | exact Hp]).
    - destruct cached.
      + apply p2o_erase. destruct (full _); auto.
      + split; [reflexivity | exact Hp].
    - destruct cached.
      + apply p2o_erase. destruct (full _); auto.
      + apply IH. exact Hp.
  Qed.

  Lemma step_erase : forall s r o, P r ->
    proj (stepS render hash N cached handover s r o) = step fmt_frame hash N cached s o
    /\ P (srcof (stepS render hash N cached handover s r o)).
  Proof.
    intros s r o Hr. destruct o as [|p| | |z]; cbn [stepS step].
    - destruct (ph s).
      + apply p1_erase; exact Hr.
      + apply p1_erase; exact Hr.
      + apply p2_erase; exact Hr.
      + split; [reflexivity | exact Hr].
    - destruct (negb _); [split; [reflexivity | exact Hr] |].
      destruct (ph s); split; try reflexivity; exact Hr.
    - split; [reflexivity | exact Hr].
    - split; [reflexivity | exact Hr].
    - split; [reflexivity | exact Hr].
  Qed.

  Lemma src_erase : forall ops s r, P r ->
    traceS render hash N cached handover s r ops = trace fmt_frame hash N cached s ops.
  Proof.
    induction ops as [|o ops IH]; intros s r Hr; [reflexivity|].
    simpl. pose proof (step_erase s o Hr) as (He & Hp).
    destruct (stepS render hash N cached handover s r o) as [[s1 r1] x].
    unfold proj, srcof in *. simpl in *. rewrite <- He. f_equal. apply IH. exact Hp.
  Qed.
End Erase.

(* ====================================================================== *)
(** * The render requests *)

Lemma Sub_refl : forall A (l : list A), Sub l l.
Proof. induction l; constructor; assumption. Qed.

Lemma Sub_app_l : forall A (p l l' : list A), Sub l l' -> Sub (p ++ l) (p ++ l').
Proof. induction p; simpl; intros; [assumption | constructor; auto]. Qed.

Section Requests.
  Variables Str Size : Type.
  Variable fmt_frame : nat -> Size -> res Str.
  Variable hash : Size -> Z.
  Variable N : nat.
  Variable sizes : list Size.

  Hypothesis HN : (1 <= N)%nat.
  Hypothesis Heof : forall z, fmt_frame N z = Eof.
  Hypothesis Hnoeof : forall k z, (k < N)%nat -> fmt_frame k z <> Eof.
  Hypothesis Hinj : forall a b, In a sizes -> In b sizes -> hash a = hash b -> a = b.

  Notation st := (st Str Size).
  Notation sp := (sp Size).
  Notation req := (nat * Size)%type.
  Notation p1L c := (p1_runS (log_render fmt_frame) hash N c (@keep (list req))).
  Notation p2L := (p2_innerS (log_render fmt_frame) hash N).
  Notation p2oL := (p2_outerS (log_render fmt_frame) hash N).
  Notation stepL c := (stepS (log_render fmt_frame) hash N c (@keep (list req))).
  Notation srcof := (@srcof Str Size (list req)).
  Notation sstep := (sstep fmt_frame N).
  Notation Inv c := (Inv fmt_frame hash N c sizes).

  (** what the SPECIFICATION renders at an operation: the frame it produces, at the current
      size — preceded, where a pass ends, by the probe for the frame past the last one (the
      only way to learn that the pass is over, 2185-2189) *)
  Definition want (a : sp) (o : op Size) : list req :=
    match o with
    | Next =>
        if closed a then []
        else if (nxt a <? N)%nat then [(nxt a, ssize a)]
        else (N, ssize a) :: (if Z.eqb (if 0 <? left a then left a - 1 else left a) 0 then []
                              else [(0%nat, ssize a)])
    | _ => []
    end.

  Fixpoint wants (a : sp) (ops : list (op Size)) : list (list req) :=
    match ops with
    | [] => []
    | o :: rest => want a o :: wants (fst (sstep a o)) rest
    end.

  (* ---- the generator's loops, request by request *)

  Lemma log_render_eq : forall (l : list req) k z,
    log_render fmt_frame l k z = (fmt_frame k z, l ++ [(k, z)]).
  Proof. reflexivity. Qed.

  Lemma p1L_lt : forall c fuel (s : st) l,
    rep s <> 0 -> 0 <= n s < Z.of_nat N ->
    srcof (p1L c fuel s l) = l ++ [(Z.to_nat (n s), size s)].
  Proof.
    intros c fuel s l Hr Hn.
    assert (Hk : (Z.to_nat (n s) < N)%nat) by lia.
    destruct fuel; cbn [p1_runS]; (destruct (rep s =? 0) eqn:E0; [apply Z.eqb_eq in E0; contradiction|]);
      rewrite log_render_eq; destruct (fmt_frame (Z.to_nat (n s)) (size s)) eqn:Ef; try reflexivity;
      exfalso; exact (Hnoeof Hk Ef).
  Qed.

  Lemma p2L_lt : forall fuel (s : st) l,
    0 <= n s < Z.of_nat N ->
    exists q, srcof (p2L fuel s l) = l ++ q /\ Sub q [(Z.to_nat (n s), size s)].
  Proof.
    intros fuel s l Hn.
    assert (Hhit : exists q : list req, l = l ++ q /\ Sub q [(Z.to_nat (n s), size s)])
      by (exists []; split; [symmetry; apply app_nil_r | constructor]).
    assert (Hre : forall x : st * list req * outcome Str,
               srcof x = l ++ [(Z.to_nat (n s), size s)] ->
               exists q, srcof x = l ++ q /\ Sub q [(Z.to_nat (n s), size s)])
      by (intros x Hx; eexists; split; [exact Hx | apply Sub_refl]).
    destruct fuel; cbn [p2_innerS]; (destruct (n s <? Z.of_nat N) eqn:E0; [|apply Z.ltb_ge in E0; lia]);
      rewrite log_render_eq;
      (destruct (nth (Z.to_nat (n s)) (cache s) None) as [[f h]|];
       [destruct (hash (size s) =? h); [exact Hhit|]|]);
      apply Hre; destruct (fmt_frame (Z.to_nat (n s)) (size s)); reflexivity.
  Qed.

  Definition rep' (s : st) : Z := if 0 <? rep s then rep s - 1 else rep s.

  Lemma p2L_end : forall fu (s : st) l,
    Z.of_nat N <= n s ->
    exists q, srcof (p2L (S fu) s l) = l ++ q
              /\ Sub q (if rep' s =? 0 then [] else [(0%nat, size s)]).
  Proof.
    intros fu s l Hn. cbn [p2_innerS].
    destruct (n s <? Z.of_nat N) eqn:E0; [apply Z.ltb_lt in E0; lia|].
    change (rep (wrap s)) with (rep' s).
    destruct (rep' s =? 0).
    - exists []. split; [symmetry; apply app_nil_r | constructor].
    - assert (H0 : 0 <= n (wrap s) < Z.of_nat N) by (simpl; lia).
      destruct (p2L_lt fu (wrap s) l H0) as (q & Hq & Hs). exists q. split; [exact Hq | exact Hs].
  Qed.

  Lemma p2oL_zero : forall fuel (s : st) l,
    n s = 0 ->
    exists q, srcof (p2oL fuel s l) = l ++ q /\ Sub q (if rep s =? 0 then [] else [(0%nat, size s)]).
  Proof.
    intros fuel s l Hn. unfold p2_outerS. destruct (rep s =? 0).
    - exists []. split; [symmetry; apply app_nil_r | constructor].
    - assert (H0 : 0 <= n s < Z.of_nat N) by lia.
      destruct (p2L_lt fuel s l H0) as (q & Hq & Hs). rewrite Hn in Hs. exists q. auto.
  Qed.

  Lemma p1L_end_uncached : forall fu (s : st) l,
    rep s <> 0 -> n s = Z.of_nat N ->
    srcof (p1L false (S fu) s l)
    = l ++ (N, size s) :: (if rep' s =? 0 then [] else [(0%nat, size s)]).
  Proof.
    intros fu s l Hr Hn. cbn [p1_runS].
    destruct (rep s =? 0) eqn:E0; [apply Z.eqb_eq in E0; contradiction|].
    rewrite log_render_eq. rewrite Hn, Nat2Z.id, Heof.
    set (s2 := wrap (set_pos s (Z.of_nat N))).
    change (rep' s) with (rep s2).
    destruct (rep s2 =? 0) eqn:E2.
    - destruct fu; cbn [p1_runS]; rewrite E2; reflexivity.
    - assert (Hr2 : rep s2 <> 0) by (apply Z.eqb_neq; exact E2).
      assert (H0 : 0 <= n s2 < Z.of_nat N) by (simpl; lia).
      rewrite (p1L_lt false fu s2 (l ++ [(N, size s)]) Hr2 H0).
      rewrite <- app_assoc. reflexivity.
  Qed.

  Lemma p1L_end_cached : forall fu (s : st) l,
    rep s <> 0 -> n s = Z.of_nat N ->
    exists q, srcof (p1L true (S fu) s l) = l ++ (N, size s) :: q
              /\ Sub q (if rep' s =? 0 then [] else [(0%nat, size s)]).
  Proof.
    intros fu s l Hr Hn. cbn [p1_runS].
    destruct (rep s =? 0) eqn:E0; [apply Z.eqb_eq in E0; contradiction|].
    rewrite log_render_eq. rewrite Hn, Nat2Z.id, Heof.
    set (s2 := wrap (set_pos s (Z.of_nat N))).
    change (rep' s) with (rep s2). change (size s) with (size s2).
    assert (Hk : (if full (cache s2) then keep (l ++ [(N, size s2)]) else l ++ [(N, size s2)])
                 = l ++ [(N, size s2)]) by (destruct (full _); reflexivity).
    rewrite Hk.
    destruct (p2oL_zero (S fu) s2 (l ++ [(N, size s2)]) eq_refl) as (q & Hq & Hs).
    exists q. rewrite Hq, <- app_assoc. split; [reflexivity | exact Hs].
  Qed.

  (* ---- one operation *)

  Lemma want_lt : forall (a : sp) k,
    closed a = false -> nxt a = k -> (k < N)%nat -> want a Next = [(k, ssize a)].
  Proof.
    intros a k Hc Hk Hlt. unfold want. rewrite Hc, Hk.
    destruct (k <? N)%nat eqn:E; [reflexivity | apply Nat.ltb_ge in E; lia].
  Qed.

  Lemma want_end : forall (a : sp) r,
    closed a = false -> nxt a = N -> left a = r ->
    want a Next = (N, ssize a) :: (if (if 0 <? r then r - 1 else r) =? 0 then [] else [(0%nat, ssize a)]).
  Proof.
    intros a r Hc Hk Hl. unfold want. rewrite Hc, Hk, Hl, Nat.ltb_irrefl. reflexivity.
  Qed.

  Lemma step_requests_uncached : forall (s : st) a o,
    Inv false s -> R s a -> srcof (stepL false s [] o) = want a o.
  Proof.
    intros s a o (Hz & HI) (Rp & Rz & Rl & RR).
    destruct o as [|p| | |z]; cbn [stepS].
    - destruct (ph s) eqn:Eph.
      + destruct HI as (Hn & Hl & Hr & Hio). destruct RR as (Rs & Rc & Rle & Rn).
        rewrite p1L_lt by (simpl; try assumption; lia).
        rewrite (want_lt a Rc Rn) by lia. simpl. rewrite Rz. reflexivity.
      + destruct HI as (Hr & Hn & Hl & Hio & _). destruct RR as (Rs & Rc & Rle & Rn).
        destruct (Z.eq_dec (n s + 1) (Z.of_nat N)) as [Hend|Hlt].
        * destruct (fuel_of_S s) as (fu & ->).
          rewrite p1L_end_uncached by (simpl; assumption).
          rewrite (want_end a Rc (r := rep s)) by (try assumption; lia).
          simpl. rewrite Rz. reflexivity.
        * rewrite p1L_lt by (simpl; try assumption; lia).
          rewrite (want_lt a Rc Rn) by lia. simpl. rewrite Rz. reflexivity.
      + destruct HI as (Hc & _). discriminate.
      + unfold want. rewrite RR. reflexivity.
    - destruct (negb _); [reflexivity|]. destruct (ph s); reflexivity.
    - reflexivity.
    - reflexivity.
    - reflexivity.
  Qed.

  Lemma step_requests_cached : forall (s : st) a o,
    Inv true s -> R s a -> Sub (srcof (stepL true s [] o)) (want a o).
  Proof.
    intros s a o (Hz & HI) (Rp & Rz & Rl & RR).
    destruct o as [|p| | |z]; cbn [stepS].
    - destruct (ph s) eqn:Eph.
      + destruct HI as (Hn & Hl & Hr & Hio). destruct RR as (Rs & Rc & Rle & Rn).
        rewrite p1L_lt by (simpl; try assumption; lia).
        rewrite (want_lt a Rc Rn) by lia. simpl. rewrite Rz. apply Sub_refl.
      + destruct HI as (Hr & Hn & Hl & Hio & _). destruct RR as (Rs & Rc & Rle & Rn).
        destruct (Z.eq_dec (n s + 1) (Z.of_nat N)) as [Hend|Hlt].
        * destruct (fuel_of_S s) as (fu & ->).
          destruct (p1L_end_cached fu (set_n s (n s + 1)) [] Hr Hend) as (q & -> & Hs).
          rewrite (want_end a Rc (r := rep s)) by (try assumption; lia).
          simpl. rewrite Rz. constructor. exact Hs.
        * rewrite p1L_lt by (simpl; try assumption; lia).
          rewrite (want_lt a Rc Rn) by lia. simpl. rewrite Rz. apply Sub_refl.
      + destruct HI as (_ & Hr & Hn & Hl & Hio & _). destruct RR as (Rs & Rc & Rle & Rn).
        destruct (Z.eq_dec (n s + 1) (Z.of_nat N)) as [Hend|Hlt].
        * destruct (fuel_of_S s) as (fu & ->).
          assert (Hge : Z.of_nat N <= n (set_n s (n s + 1))) by (simpl; lia).
          destruct (p2L_end fu (set_n s (n s + 1)) [] Hge) as (q & -> & Hs).
          rewrite (want_end a Rc (r := rep s)) by (try assumption; lia).
          simpl. rewrite Rz. constructor. exact Hs.
        * assert (H0 : 0 <= n (set_n s (n s + 1)) < Z.of_nat N) by (simpl; lia).
          destruct (p2L_lt (fuel_of s) (set_n s (n s + 1)) [] H0) as (q & -> & Hs).
          rewrite (want_lt a Rc Rn) by lia. simpl in *. rewrite Rz. exact Hs.
      + unfold want. rewrite RR. constructor.
    - destruct (negb _); [constructor|]. destruct (ph s); constructor.
    - constructor.
    - constructor.
    - constructor.
  Qed.
End Requests.

(* ====================================================================== *)
(** * Every history *)

Section Histories.
  Variables Str Size : Type.
  Variable fmt_frame : nat -> Size -> res Str.
  Variable hash : Size -> Z.
  Variable N : nat.

  Notation req := (nat * Size)%type.
  Notation reqs := (reqs fmt_frame hash N).
  Notation wants := (wants fmt_frame N).

  (** the state components of the logging iterator are those of the iterator *)
  Lemma stepL_state : forall c (s : st Str Size) (l : list req) o,
    fst (fst (stepS (log_render fmt_frame) hash N c (@keep (list req)) s l o))
    = fst (step fmt_frame hash N c s o).
  Proof.
    intros c s l o.
    assert (H := @step_erase Str Size (list req) fmt_frame (log_render fmt_frame) hash N c
                   (@keep (list req)) (fun _ => True)
                   (fun r k z _ => conj eq_refl I) (fun r _ => I) s l o I).
    destruct H as (H & _). unfold proj in H. rewrite <- H. reflexivity.
  Qed.

  Section Sized.
    Variable sizes : list Size.
    Hypothesis HN : (1 <= N)%nat.
    Hypothesis Heof : forall z, fmt_frame N z = Eof.
    Hypothesis Hnoeof : forall k z, (k < N)%nat -> fmt_frame k z <> Eof.
    Hypothesis Hinj : forall a b, In a sizes -> In b sizes -> hash a = hash b -> a = b.

    Lemma reqs_uncached_gen : forall ops (s : st Str Size) a,
      Inv fmt_frame hash N false sizes s -> R s a -> Forall (op_ok sizes) ops ->
      reqs false s ops = wants a ops.
    Proof.
      induction ops as [|o ops IH]; intros s a HI HR Hok; [reflexivity|].
      inversion Hok as [|? ? Ho Hops]; subst.
      assert (Hinj' : false = true -> forall a b, In a sizes -> In b sizes -> hash a = hash b -> a = b)
        by discriminate.
      pose proof (@step_sim Str Size fmt_frame hash N false sizes HN Heof Hnoeof Hinj' s a o HI HR Ho)
        as (_ & HI' & HR').
      pose proof (@step_requests_uncached Str Size fmt_frame hash N sizes HN Heof Hnoeof s a o HI HR) as Hq.
      pose proof (stepL_state false s [] o) as Hs.
      cbn [ImgIterSrc.reqs ImgIterSrcProofs.wants].
      destruct (stepS (log_render fmt_frame) hash N false (@keep (list req)) s [] o) as [[s1 l] x].
      unfold srcof in Hq. simpl in Hq, Hs. subst l s1. f_equal. apply IH; assumption.
    Qed.

    Lemma reqs_cached_gen : forall ops (s : st Str Size) a,
      Inv fmt_frame hash N true sizes s -> R s a -> Forall (op_ok sizes) ops ->
      Forall2 Sub (reqs true s ops) (wants a ops).
    Proof.
      induction ops as [|o ops IH]; intros s a HI HR Hok; [constructor|].
      inversion Hok as [|? ? Ho Hops]; subst.
      pose proof (@step_sim Str Size fmt_frame hash N true sizes HN Heof Hnoeof (fun _ => Hinj) s a o HI HR Ho)
        as (_ & HI' & HR').
      pose proof (@step_requests_cached Str Size fmt_frame hash N sizes HN Heof Hnoeof s a o HI HR) as Hq.
      pose proof (stepL_state true s [] o) as Hs.
      cbn [ImgIterSrc.reqs ImgIterSrcProofs.wants].
      destruct (stepS (log_render fmt_frame) hash N true (@keep (list req)) s [] o) as [[s1 l] x].
      unfold srcof in Hq. simpl in Hq, Hs. subst s1. constructor; [exact Hq|]. apply IH; assumption.
    Qed.
  End Sized.

  (** the non-caching iterator renders, operation by operation, exactly what the specification
      renders (the frame it yields, at the size in force; the end-of-pass probe) *)
  Lemma uncached_requests : forall repeat pos0 z0 ops,
    renderer_ok fmt_frame N -> repeat <> 0 ->
    reqs false (init Str repeat pos0 z0) ops = wants (sinit repeat pos0 z0) ops.
  Proof.
    intros repeat pos0 z0 ops (HN & He & Hne) Hr.
    assert (Hinj' : false = true -> forall a b, In a (sizes_of z0 ops) -> In b (sizes_of z0 ops) ->
                                    hash a = hash b -> a = b) by discriminate.
    apply reqs_uncached_gen with (sizes := sizes_of z0 ops); auto.
    - apply init_Inv; auto. apply z0_in_sizes_of.
    - apply init_R.
    - apply ops_in_sizes_of.
  Qed.

  (** the caching iterator never renders anything else *)
  Lemma cached_requests_wanted : forall repeat pos0 z0 ops,
    renderer_ok fmt_frame N -> repeat <> 0 -> hash_separates hash (sizes_of z0 ops) ->
    Forall2 Sub (reqs true (init Str repeat pos0 z0) ops) (wants (sinit repeat pos0 z0) ops).
  Proof.
    intros repeat pos0 z0 ops (HN & He & Hne) Hr Hh.
    apply reqs_cached_gen with (sizes := sizes_of z0 ops); auto.
    - apply init_Inv; auto. apply z0_in_sizes_of.
    - apply init_R.
    - apply ops_in_sizes_of.
  Qed.

  (** ... hence: operation by operation, the render requests of the caching iterator are a
      sub-list of the render requests of the non-caching iterator *)
  Lemma cached_requests_sub : forall repeat pos0 z0 ops,
    renderer_ok fmt_frame N -> repeat <> 0 -> hash_separates hash (sizes_of z0 ops) ->
    Forall2 Sub (reqs true (init Str repeat pos0 z0) ops) (reqs false (init Str repeat pos0 z0) ops).
  Proof.
    intros. rewrite uncached_requests by assumption. apply cached_requests_wanted; assumption.
  Qed.

  (** a closable source that the iterator leaves alone ([keep], the code): the caller sees the
      trace of model/ImgIter.v, and the cache is invisible *)
  Lemma kept_source_is_pure : forall c ops (s : st Str Size),
    traceS (file_render fmt_frame) hash N c (@keep bool) s true ops = trace fmt_frame hash N c s ops.
  Proof.
    intros c ops s.
    apply (@src_erase Str Size bool fmt_frame (file_render fmt_frame) hash N c (@keep bool)
             (fun r => r = true)); [|intros r Hr; exact Hr|reflexivity].
    intros r k z ->. split; reflexivity.
  Qed.

  Lemma kept_source_transparent : forall repeat pos0 z0 ops,
    renderer_ok fmt_frame N -> repeat <> 0 -> hash_separates hash (sizes_of z0 ops) ->
    traceS (file_render fmt_frame) hash N true (@keep bool) (init Str repeat pos0 z0) true ops
    = traceS (file_render fmt_frame) hash N false (@keep bool) (init Str repeat pos0 z0) true ops.
  Proof.
    intros. rewrite !kept_source_is_pure. apply imgiter_cache_transparent; assumption.
  Qed.

  (** without a cache the hook is never reached: whatever [handover] does, the non-caching
      iterator behaves as over a kept source *)
  Lemma uncached_ignores_handover : forall h ops (s : st Str Size),
    traceS (file_render fmt_frame) hash N false h s true ops = trace fmt_frame hash N false s ops.
  Proof.
    intros h ops s.
    assert (P1 : forall fuel (s : st Str Size),
              proj (p1_runS (file_render fmt_frame) hash N false h fuel s true)
              = p1_run fmt_frame hash N false fuel s
              /\ srcof (p1_runS (file_render fmt_frame) hash N false h fuel s true) = true).
    { induction fuel as [|fu IH]; intros s0; cbn [p1_runS p1_run];
        (destruct (rep s0 =? 0); [split; reflexivity|]);
        unfold file_render; destruct (fmt_frame (Z.to_nat (n s0)) (size s0)); try (split; reflexivity).
      apply IH. }
    revert s. induction ops as [|o ops IH]; intros s; [reflexivity|].
    cbn [traceS trace].
    assert (Hstep : proj (stepS (file_render fmt_frame) hash N false h s true o) = step fmt_frame hash N false s o
                    /\ srcof (stepS (file_render fmt_frame) hash N false h s true o) = true).
    { destruct o as [|p| | |z]; cbn [stepS step].
      - destruct (ph s) eqn:Eph; try apply P1.
        + (* P2 is unreachable without a cache, but the step is the same anyway *)
          apply (@p2_erase Str Size bool fmt_frame (file_render fmt_frame) hash N (fun r => r = true)).
          * intros r k z ->. split; reflexivity.
          * reflexivity.
        + split; reflexivity.
      - destruct (negb _); [split; reflexivity|]. destruct (ph s); split; reflexivity.
      - split; reflexivity.
      - split; reflexivity.
      - split; reflexivity. }
    destruct Hstep as (He & Hp).
    destruct (stepS (file_render fmt_frame) hash N false h s true o) as [[s1 r1] x].
    unfold proj, srcof in *. simpl in *. subst r1. rewrite <- He. f_equal. apply IH.
  Qed.
End Histories.

(* ====================================================================== *)
(** * Non-vacuity, and the excluded design *)

(** a three-frame image, every frame rendered in the first pass, a size change in the SECOND
    pass (served from the cache), and on *)
Definition late_history : list (op nat) :=
  [Next; Next; Next; Next; SetImageSize 7%nat; Next; Next; SetImageSize 5%nat; Next; Next].

(** the requests: the caching iterator renders the three frames once, probes for the end of the
    pass once, re-renders only the frames met under a size they are not cached for — always a
    part of what the non-caching iterator renders at that operation *)
Example ex_requests :
  reqs ex_fmt Z.of_nat 3 true (init nat (-1) 0 5%nat) late_history
  = [[(0, 5)]; [(1, 5)]; [(2, 5)]; [(3, 5)]; []; [(1, 7)]; [(2, 7)]; []; []; [(1, 5)]]%nat
  /\ reqs ex_fmt Z.of_nat 3 false (init nat (-1) 0 5%nat) late_history
  = [[(0, 5)]; [(1, 5)]; [(2, 5)]; [(3, 5); (0, 5)]; []; [(1, 7)]; [(2, 7)]; []; [(3, 5); (0, 5)]; [(1, 5)]]%nat.
Proof. split; vm_compute; reflexivity. Qed.

Example ex_requests_sub :
  Forall2 Sub (reqs ex_fmt Z.of_nat 3 true (init nat (-1) 0 5%nat) late_history)
              (reqs ex_fmt Z.of_nat 3 false (init nat (-1) 0 5%nat) late_history).
Proof.
  apply cached_requests_sub; [exact ex_renderer_ok | discriminate | apply ex_hash_separates].
Qed.

(** THE EXCLUDED DESIGN.  The iterator closes its source when it leaves the first loop with every
    frame cached ([release]).  Nothing can be seen while the size stays as it was — and a size
    change in a LATER loop makes the caching iterator raise where the non-caching one yields *)
Example released_source_refuted :
  traceS (file_render ex_fmt) Z.of_nat 3 true release (init nat (-1) 0 5%nat) true late_history
  <> traceS (file_render ex_fmt) Z.of_nat 3 false release (init nat (-1) 0 5%nat) true late_history
  /\ nth 5 (traceS (file_render ex_fmt) Z.of_nat 3 true release (init nat (-1) 0 5%nat) true late_history)
         (OStop, 0, None, true) = (ORaise, 1, Some (-1), false)
  /\ nth 5 (traceS (file_render ex_fmt) Z.of_nat 3 false release (init nat (-1) 0 5%nat) true late_history)
         (OStop, 0, None, true) = (OYield 1 701%nat, 1, Some (-1), true).
Proof.
  split; [|split]; [intro H; vm_compute in H; discriminate H | vm_compute; reflexivity | vm_compute; reflexivity].
Qed.

(** ... although as long as no frame has to be rendered again (here: no size change at all) the
    release is invisible, however many passes are served from the cache *)
Example released_source_unnoticed :
  traceS (file_render ex_fmt) Z.of_nat 3 true release (init nat (-1) 0 5%nat) true (repeat Next 11)
  = traceS (file_render ex_fmt) Z.of_nat 3 false release (init nat (-1) 0 5%nat) true (repeat Next 11).
Proof. vm_compute. reflexivity. Qed.

(** the same history on the source the code keeps open: no difference (instance of
    [kept_source_transparent]) *)
Example kept_source_late_history :
  traceS (file_render ex_fmt) Z.of_nat 3 true (@keep bool) (init nat (-1) 0 5%nat) true late_history
  = traceS (file_render ex_fmt) Z.of_nat 3 false (@keep bool) (init nat (-1) 0 5%nat) true late_history.
Proof.
  apply kept_source_transparent; [exact ex_renderer_ok | discriminate | apply ex_hash_separates].
Qed.
