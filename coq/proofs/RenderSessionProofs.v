(** C01 over sessions: every render output handed out during ANY session of requests on
    one instance (earlier requests completed or interrupted at any point) is the render of
    its own request alone and satisfies the rectangle contract. *)
From Coq Require Import List ZArith Bool Lia.
Import ListNotations.
From TI Require Import lib.Term lib.TermFacts lib.Rect lib.RectCheck lib.Lines model.Block model.GfxRender
     model.RenderSession model.RenderTie model.RenderSessionTie proofs.BlockRect proofs.GfxRect.
Open Scope Z_scope.

(** the per-request contract: the five style theorems, collected *)
Lemma p_render_rect p : p_wf p -> Rect (p_w p) (p_h p) (p_render p).
Proof.
  destruct p; cbn [p_wf p_w p_h p_render].
  - intros (Hn & Hw & Hl). apply block_rect; assumption.
  - intros (Hw & Hh). apply kitty_lines_rect with (h := Z.of_nat (length pls)); auto.
  - intros (Hw & Hh). apply kitty_whole_rect; assumption.
  - intros (Hw & Hh). apply iterm2_lines_rect with (h := Z.of_nat (length sps)); auto.
  - intros (Hw & Hh). apply iterm2_whole_rect; assumption.
Qed.

Lemma p_wfb_sound p : p_wfb p = true -> p_wf p.
Proof.
  destruct p; cbn [p_wfb p_wf];
    try (rewrite andb_true_iff, !Z.ltb_lt; tauto).
  rewrite !andb_true_iff, !negb_true_iff, !Nat.eqb_neq, forallb_forall.
  intros ((Hr & Hw) & Hf). split; [|split].
  - intros ->. apply Hr. reflexivity.
  - lia.
  - intros r Hin. apply Nat.eqb_eq, Hf, Hin.
Qed.

(** one request: a completed render yields the render of its parameters; an interrupted
    one yields nothing, wherever it was cut *)
Lemma run_render_done r : r_cut r = None -> yielded (run_render r) = Some (p_render (r_par r)).
Proof. unfold run_render. intros ->. reflexivity. Qed.

Lemma run_render_cut r k : r_cut r = Some k -> yielded (run_render r) = None.
Proof. unfold run_render. intros ->. reflexivity. Qed.

(** a session is served request by request: what a later part of the session yields does
    not depend on the requests served before it *)
Lemma session_app s1 s2 : session (s1 ++ s2) = session s1 ++ session s2.
Proof. induction s1 as [|r s1 IH]; cbn; [reflexivity|]. now rewrite IH. Qed.

Lemma session_outputs_app s1 s2 :
  session_outputs (s1 ++ s2) = session_outputs s1 ++ session_outputs s2.
Proof.
  induction s1 as [|r s1 IH]; cbn [session_outputs app]; [reflexivity|].
  destruct (yielded (run_render r)); rewrite IH; reflexivity.
Qed.

(** THE purity statement: whatever precedes (completed, or interrupted at any point) and
    whatever follows, a completed request yields exactly the render of its own parameters *)
Lemma session_pure s1 r s2 :
  r_cut r = None ->
  nth_error (session (s1 ++ r :: s2)) (length s1) = Some (Some (p_render (r_par r))).
Proof.
  intros Hc. rewrite session_app.
  assert (L : length (session s1) = length s1).
  { clear. induction s1; cbn; auto. }
  rewrite nth_error_app2 by lia. rewrite L, Nat.sub_diag. cbn.
  now rewrite run_render_done.
Qed.

Lemma session_interrupted_nothing s1 r s2 k :
  r_cut r = Some k ->
  nth_error (session (s1 ++ r :: s2)) (length s1) = Some None.
Proof.
  intros Hc. rewrite session_app.
  assert (L : length (session s1) = length s1).
  { clear. induction s1; cbn; auto. }
  rewrite nth_error_app2 by lia. rewrite L, Nat.sub_diag. cbn.
  now rewrite (run_render_cut _ _ Hc).
Qed.

(** the outputs of a session are the renders of its completed requests, in order *)
Lemma session_outputs_spec s :
  session_outputs s =
  map (fun r => (r, p_render (r_par r))) (filter (fun r => negb (interrupted r)) s).
Proof.
  induction s as [|r s IH]; cbn [session_outputs filter map]; [reflexivity|].
  unfold interrupted, run_render. destruct (r_cut r); cbn; rewrite IH; reflexivity.
Qed.

(** C01 for sessions: every output yielded by every session satisfies the rectangle
    contract of its own request (induction over the session) *)
Lemma session_rect s :
  (forall r, In r s -> interrupted r = false -> p_wf (r_par r)) ->
  forall r out, In (r, out) (session_outputs s) ->
    Rect (p_w (r_par r)) (p_h (r_par r)) out.
Proof.
  induction s as [|q s IH]; intros Hwf r out Hin; cbn [session_outputs] in Hin.
  - destruct Hin.
  - assert (Hs : forall r0, In r0 s -> interrupted r0 = false -> p_wf (r_par r0)).
    { intros r0 H0. apply Hwf. now right. }
    unfold run_render, interrupted in *.
    destruct (r_cut q) eqn:Ec; cbn [yielded] in Hin.
    + now apply IH.
    + destruct Hin as [E | Hin]; [|now apply IH].
      inversion E; subst. cbn [app]. apply p_render_rect. apply Hwf; [now left|].
      now rewrite Ec.
Qed.

(** ... and on any screen where that rectangle fits nothing wraps, scrolls or leaves it *)
Lemma session_fits s :
  (forall r, In r s -> interrupted r = false -> p_wf (r_par r)) ->
  forall r out, In (r, out) (session_outputs s) ->
  forall W H top lm t,
    clean t -> col t = lm -> sgr t = adefault ->
    0 <= lm -> lm + p_w (r_par r) <= W -> top <= row t -> row t + p_h (r_par r) <= top + H ->
    exists evs, log (exec lm t out) = log t ++ evs /\ fits_noscroll W H top evs = true.
Proof.
  intros Hwf r out Hin W H top lm t. eapply (rect_fits all_cells). eapply session_rect; eauto.
Qed.

(** non-vacuity: a three-request session (a 2x2 block render, the same request interrupted
    after 3 pieces, a kitty LINES render): two outputs, each the render of its own request *)
Definition ex_px (r g b : Z) : px := {| p1 := (r, g, b); p2 := (b, g, r); a1 := 255; a2 := 255 |}.
Definition ex_block := PBlock false false None false 2 [[ex_px 1 2 3; ex_px 4 5 6]; [ex_px 7 8 9; ex_px 7 8 9]].
Definition ex_session : list req :=
  [ {| r_par := ex_block; r_cut := None |};
    {| r_par := ex_block; r_cut := Some 3%nat |};
    {| r_par := PKittyLines 3 0 false true [[10]; [4096; 7]]; r_cut := None |};
    {| r_par := ex_block; r_cut := None |} ].

Example ex_session_yields :
  session ex_session =
  [ Some (p_render ex_block); None; Some (p_render (PKittyLines 3 0 false true [[10]; [4096; 7]]));
    Some (p_render ex_block) ]
  /\ length (session_outputs ex_session) = 3%nat
  /\ (forall r, In r ex_session -> interrupted r = false -> p_wf (r_par r)).
Proof.
  split; [reflexivity|]. split; [reflexivity|].
  intros r Hin _. apply p_wfb_sound.
  cbn in Hin. repeat (destruct Hin as [<- | Hin]; [vm_compute; reflexivity|]). destruct Hin.
Qed.

(** the correspondence's reading of an observed render as a request is the single-render
    token model of RenderTie: the session tie judges each yielded output against the very
    model the single-render tie uses *)
Lemma params_of_model w h c obs : p_render (params_of w h c obs) = model_toks w h c obs.
Proof. destruct c; reflexivity. Qed.

(** when the executable session comparison finds nothing for a session without a model
    difference (bit 1), each observed completed output IS the session model's output for
    its request, hence satisfies the proved contract *)
Lemma yields_eqb_sound a b : yields_eqb a b = true -> a = b.
Proof.
  revert b. induction a as [|x a IH]; destruct b as [|y b]; cbn; try discriminate; auto.
  rewrite andb_true_iff. intros (Hxy & Hab). f_equal; [|now apply IH].
  destruct x, y; cbn in Hxy; try discriminate; auto.
  unfold toks_eqb in Hxy. destruct (list_eq_dec tok_dec l l0); [now subst|discriminate].
Qed.

Lemma session_tie_sound sc :
  yields_eqb (session (map req_of sc)) (map observed sc) && forallb req_okb sc = true ->
  forall t, In (SDone t) sc -> Rect (t_w t) (t_h t) (t_obs t).
Proof.
  rewrite andb_true_iff. intros (Hy & Hok) t Hin.
  apply yields_eqb_sound in Hy. rewrite forallb_forall in Hok.
  specialize (Hok _ Hin). cbn [req_okb] in Hok.
  rewrite !andb_true_iff, !Z.eqb_eq in Hok. destruct Hok as ((Hwf & Ew) & Eh).
  apply p_wfb_sound in Hwf.
  assert (E : t_obs t = p_render (params_of (t_w t) (t_h t) (t_case t) (t_obs t))).
  { clear - Hy Hin. induction sc as [|s sc IH]; [destruct Hin|].
    cbn [map session] in Hy. injection Hy as H1 H2.
    destruct Hin as [-> | Hin]; [|now apply IH].
    unfold run_render in H1. cbn in H1. injection H1 as H1. now symmetry. }
  pose proof (p_render_rect _ Hwf) as R. rewrite Ew, Eh, <- E in R. exact R.
Qed.
