(** * RArgsSubProofs — copies of namespace instances are made from FIELDS, whatever constructor
      the instance's class defines (C16)

    Lemmas about [model/RArgsSub.v]: [update] on an instance of ANY subclass (plain, preset,
    renamed parameters, forced fields, or any other user constructor: the statement does not
    mention the descriptor) gives the class of the instance and its fields with the given ones
    replaced, and raises only for unknown names; [RenderArgs.update] is that update; the
    holding routes return the very instance; programs refine the value-level rule and never
    alter a live instance; the excluded design (update through the class's constructor) is
    refuted on a preset subclass (raises) and on a forcing subclass (silently wrong values). *)
From Coq Require Import List ZArith Bool Arith Lia.
Import ListNotations.
From TI Require Import model.RArgsVal model.RArgsSub proofs.RArgsValProofs.

Local Arguments Nat.eqb : simpl never.
Local Arguments Nat.ltb : simpl never.
Local Arguments Nat.leb : simpl never.

(** ** [update]: by fields, same class, independent of the constructor *)

Lemma sub_update_by_fields : forall cl sl (h : list nobj) env x i s f kw,
  nlookup h env x = Some (i, (s, f)) -> length f = sfields cl sl s ->
  kw <> [] -> all_known (sfields cl sl s) kw = true ->
  sstep_op cl sl h env (SUpdate x kw) =
  (h ++ [(s, fields_by_rule (sfields cl sl s) (fun j => nth j f VNone) kw)],
   NOk (RObj (length h))).
Proof.
  intros cl sl h env x i s f kw Hx Hl Hne Hk.
  unfold sstep_op, sstep_pol. rewrite Hx. unfold s_update, copy_fields, nupdate.
  destruct kw as [|p r]; [contradiction|].
  rewrite has_unknown_known, Hk. cbn [negb].
  rewrite apply_kw_rule by (rewrite Hl; exact Hk). rewrite Hl. reflexivity.
Qed.

Lemma sub_update_unknown_rejected : forall cl sl (h : list nobj) env x i s f kw,
  nlookup h env x = Some (i, (s, f)) -> all_known (sfields cl sl s) kw = false ->
  sstep_op cl sl h env (SUpdate x kw) = (h, NErr NEUnknown).
Proof.
  intros cl sl h env x i s f kw Hx Hk.
  unfold sstep_op, sstep_pol. rewrite Hx. unfold s_update, copy_fields, nupdate.
  destruct kw as [|p r]; [cbn in Hk; discriminate|].
  rewrite has_unknown_known, Hk. reflexivity.
Qed.

Lemma sub_update_no_fields_is_self : forall cl sl (h : list nobj) env x i s f,
  nlookup h env x = Some (i, (s, f)) ->
  sstep_op cl sl h env (SUpdate x []) = (h, NOk (RObj i)).
Proof.
  intros cl sl h env x i s f Hx. unfold sstep_op, sstep_pol. rewrite Hx. reflexivity.
Qed.

(** the constructor descriptors of the class tables do not matter: two tables that agree on
    the associated class of the instance's class give the same result *)
Lemma sub_update_ctor_irrelevant : forall cl sl sl' (h : list nobj) env x i s f kw,
  nlookup h env x = Some (i, (s, f)) -> base_of sl s = base_of sl' s ->
  sstep_op cl sl h env (SUpdate x kw) = sstep_op cl sl' h env (SUpdate x kw).
Proof.
  intros cl sl sl' h env x i s f kw Hx Hb.
  unfold sstep_op, sstep_pol. rewrite Hx. unfold s_update, copy_fields, sfields.
  rewrite Hb. reflexivity.
Qed.

Lemma sub_ra_update_is_update : forall cl sl (h : list nobj) env x m i s f kw,
  nlookup h env x = Some (i, (s, f)) -> base_of sl s <= m < length cl ->
  sstep_op cl sl h env (SRaUpdate x m kw) = sstep_op cl sl h env (SUpdate x kw).
Proof.
  intros cl sl h env x m i s f kw Hx [H1 H2].
  unfold sstep_op, sstep_pol. rewrite Hx.
  destruct (length cl <=? m) eqn:E1; [apply Nat.leb_le in E1; lia|].
  destruct (m <? base_of sl s) eqn:E2; [apply Nat.ltb_lt in E2; lia|]. reflexivity.
Qed.

(** [|], [+], [to_render_args], [convert]: the set holds the very instance; nothing is made *)
Lemma sub_hold_is_identity : forall pol cl sl (h : list nobj) env x r i s f,
  nlookup h env x = Some (i, (s, f)) -> hold_ok (length cl) (base_of sl s) r = NOk tt ->
  sstep_pol pol cl sl h env (SHold x r) = (h, NOk (RObj i)).
Proof.
  intros pol cl sl h env x r i s f Hx Hr. unfold sstep_pol. rewrite Hx, Hr. reflexivity.
Qed.

(** ** Programs: heap invariant, monotonicity, refinement of the rule *)

Definition WFs (cl : list (list val)) (sl : list scls) (h : list nobj) : Prop :=
  forall i s f, nth_error h i = Some (s, f) -> length f = sfields cl sl s.

Lemma WFs_snoc : forall cl sl h s f,
  WFs cl sl h -> length f = sfields cl sl s -> WFs cl sl (h ++ [(s, f)]).
Proof.
  intros cl sl h s f H Hf i s' f' Hi.
  destruct (Nat.lt_ge_cases i (length h)) as [Hlt|Hge].
  - rewrite nth_error_app1 in Hi by exact Hlt. eapply H; exact Hi.
  - rewrite nth_error_app2 in Hi by exact Hge.
    destruct (i - length h) as [|n]; cbn in Hi; [|destruct n; discriminate].
    inversion Hi; subst. assumption.
Qed.

Lemma spec_nctor_length : forall dfl pos kw f, spec_nctor dfl pos kw = NOk f -> length f = length dfl.
Proof.
  intros dfl pos kw f Hn. unfold spec_nctor in Hn.
  destruct (length dfl <? length pos); [discriminate|].
  destruct (negb (all_known (length dfl) kw)); [discriminate|].
  destruct (negb (forallb (fun p : nat * val => length pos <=? fst p) kw)); [discriminate|].
  inversion Hn. apply fields_by_rule_length.
Qed.

Lemma s_update_refines : forall cl sl h i s f kw,
  WFs cl sl h -> nth_error h i = Some (s, f) ->
  let hr := s_update CopyFields cl sl h i s f kw in
  nagree (fst hr) (snd hr)
         (match spec_nupdate (sfields cl sl s) f kw with NOk f' => NOk (SObj s f') | NErr e => NErr e end) /\
  WFs cl sl (fst hr) /\ (exists t, fst hr = h ++ t) /\ (forall e, snd hr = NErr e -> fst hr = h).
Proof.
  intros cl sl h i s f kw Hwf Hi. pose proof (Hwf _ _ _ Hi) as Hl.
  unfold s_update, copy_fields. pose proof (nupdate_is_rule (sfields cl sl s) f kw Hl) as R.
  destruct (nupdate (sfields cl sl s) f kw) as [[f'|]|e]; cbn [fst snd].
  - destruct R as [_ R]. rewrite R. cbn [nagree].
    assert (Hl' : length f' = sfields cl sl s).
    { unfold spec_nupdate in R. destruct (negb (all_known (sfields cl sl s) kw)); [discriminate|].
      inversion R. apply fields_by_rule_length. }
    split; [|split; [|split]].
    + rewrite nth_error_app2 by lia. rewrite Nat.sub_diag. reflexivity.
    + apply WFs_snoc; assumption.
    + eexists; reflexivity.
    + intros e He; discriminate.
  - destruct R as [_ R]. rewrite R. cbn [nagree].
    split; [exact Hi|]. split; [exact Hwf|]. split; [exists []; rewrite app_nil_r; reflexivity|reflexivity].
  - rewrite R. cbn [nagree]. split; [reflexivity|]. split; [exact Hwf|].
    split; [exists []; rewrite app_nil_r; reflexivity|reflexivity].
Qed.

(** every operation: the result denotes what the rule says, existing instances are kept (the
    heap only grows) and a rejected call changes nothing *)
Lemma sstep_refines : forall cl sl h env senv o,
  WFs cl sl h -> Forall2 (nagree h) env senv ->
  let hr := sstep_op cl sl h env o in
  nagree (fst hr) (snd hr) (spec_sop cl sl senv o) /\
  WFs cl sl (fst hr) /\ (exists t, fst hr = h ++ t) /\ (forall e, snd hr = NErr e -> fst hr = h).
Proof.
  intros cl sl h env senv o Hwf Hag.
  assert (Triv : forall e, nagree h (NErr e) (NErr e) /\ WFs cl sl h /\ (exists t, h = h ++ t) /\
                           (forall e', @NErr rv e = NErr e' -> h = h)).
  { intros e. split; [reflexivity|]. split; [exact Hwf|]. split; [exists []; rewrite app_nil_r; reflexivity|reflexivity]. }
  unfold sstep_op.
  destruct o as [s pos kw|x kw|x m kw|x r]; cbn [sstep_pol spec_sop].
  - destruct (nth_error sl s) as [[c d]|] eqn:Hs; [|apply Triv].
    destruct (nth_error cl c) as [dfl|] eqn:Hc; [|apply Triv].
    assert (Hb : sfields cl sl s = length dfl).
    { unfold sfields, base_of, nfields.
      assert (E : nth s sl (0, DPlain) = (c, d)) by (apply nth_error_nth; exact Hs).
      rewrite E. cbn [fst].
      rewrite (nth_error_nth _ _ [] Hc). reflexivity. }
    assert (G : forall p k,
               let hr := match nctor dfl p k with
                         | NErr e => (h, NErr e)
                         | NOk f => (h ++ [(s, f)], NOk (RObj (length h)))
                         end in
               nagree (fst hr) (snd hr)
                      (match spec_nctor dfl p k with NOk f => NOk (SObj s f) | NErr e => NErr e end) /\
               WFs cl sl (fst hr) /\ (exists t, fst hr = h ++ t) /\ (forall e, snd hr = NErr e -> fst hr = h)).
    { intros p k. rewrite <- nctor_is_rule.
      destruct (nctor dfl p k) as [f|e] eqn:Hn; [|apply Triv]. cbn [fst snd nagree].
      assert (Hl : length f = sfields cl sl s).
      { rewrite nctor_is_rule in Hn. rewrite Hb. eapply spec_nctor_length; exact Hn. }
      split; [|split; [|split]].
      + rewrite nth_error_app2 by lia. rewrite Nat.sub_diag. reflexivity.
      + apply WFs_snoc; assumption.
      + eexists; reflexivity.
      + intros e He; discriminate. }
    unfold sconstruct. destruct (ctor_of d) as [g|].
    + destruct (g (pos, kw)) as [b|e]; [apply G|apply Triv].
    + apply (G pos kw).
  - pose proof (nlookup_agree h env senv x Hag) as L.
    destruct (nlookup h env x) as [[i [s f]]|].
    + destruct L as [Ls Lh]. rewrite Ls. apply s_update_refines; assumption.
    + destruct (nth_error senv x) as [[[c f|w]|e]|]; try contradiction; apply Triv.
  - pose proof (nlookup_agree h env senv x Hag) as L.
    destruct (nlookup h env x) as [[i [s f]]|].
    + destruct L as [Ls Lh]. rewrite Ls.
      destruct (length cl <=? m); [apply Triv|].
      rewrite Nat.ltb_antisym. destruct (base_of sl s <=? m); cbn [negb]; [|apply Triv].
      apply s_update_refines; assumption.
    + destruct (nth_error senv x) as [[[c f|w]|e]|]; try contradiction; apply Triv.
  - pose proof (nlookup_agree h env senv x Hag) as L.
    destruct (nlookup h env x) as [[i [s f]]|].
    + destruct L as [Ls Lh]. rewrite Ls.
      destruct (hold_ok (length cl) (base_of sl s) r) as [u|e]; [|apply Triv]. cbn [fst snd nagree].
      split; [exact Lh|]. split; [exact Hwf|]. split; [exists []; rewrite app_nil_r; reflexivity|intros e He; discriminate].
    + destruct (nth_error senv x) as [[[c f|w]|e]|]; try contradiction; apply Triv.
Qed.

Lemma base_of_full : forall cl subs c, c < length cl -> base_of (sl_full cl subs) c = c.
Proof.
  intros cl subs c Hc. unfold base_of, sl_full.
  rewrite app_nth1 by (rewrite map_length, seq_length; exact Hc).
  change (@pair nat sdesc 0 DPlain) with ((fun c : nat => (c, DPlain)) 0).
  rewrite map_nth. cbn [fst]. rewrite seq_nth by exact Hc. reflexivity.
Qed.

Lemma WFs_heap0 : forall cl subs, WFs cl (sl_full cl subs) (heap_of 0 cl).
Proof.
  intros cl subs i s f Hi.
  assert (Hlt : i < length cl).
  { rewrite <- (heap_of_length cl 0). apply nth_error_Some. congruence. }
  rewrite nth_error_heap_of in Hi by exact Hlt. inversion Hi; subst. cbn [plus].
  unfold sfields. rewrite base_of_full by exact Hlt. reflexivity.
Qed.

Lemma srun_from_refines : forall cl sl p h env senv,
  WFs cl sl h -> Forall2 (nagree h) env senv ->
  let st := srun_from cl sl (h, env) p in
  WFs cl sl (fst st) /\ Forall2 (nagree (fst st)) (snd st) (spec_srun_from cl sl senv p) /\
  exists t, fst st = h ++ t.
Proof.
  induction p as [|o p IH]; intros h env senv Hwf Hag.
  - cbn. split; [exact Hwf|]. split; [exact Hag|]. exists []; rewrite app_nil_r; reflexivity.
  - pose proof (sstep_refines cl sl h env senv o Hwf Hag) as R. cbn zeta in R.
    destruct (sstep_op cl sl h env o) as [h' r] eqn:E. cbn [fst snd] in R.
    assert (Es : sstep cl sl (h, env) o = (h', env ++ [r])).
    { unfold sstep. cbn [fst snd]. rewrite E. reflexivity. }
    destruct R as [Ra [Rw [[t Rt] _]]].
    assert (Hag' : Forall2 (nagree h') (env ++ [r]) (senv ++ [spec_sop cl sl senv o])).
    { apply Forall2_app; [|constructor; [exact Ra|constructor]].
      subst h'. apply Forall2_nagree_ext; exact Hag. }
    specialize (IH h' (env ++ [r]) (senv ++ [spec_sop cl sl senv o]) Rw Hag').
    cbn zeta in IH.
    change (srun_from cl sl (h, env) (o :: p)) with (srun_from cl sl (sstep cl sl (h, env) o) p).
    change (spec_srun_from cl sl senv (o :: p)) with (spec_srun_from cl sl (senv ++ [spec_sop cl sl senv o]) p).
    rewrite Es.
    destruct IH as [I1 [I2 [t' I3]]]. split; [exact I1|]. split; [exact I2|].
    exists (t ++ t'). rewrite I3, Rt, app_assoc. reflexivity.
Qed.

(** operation SEQUENCES over instances of subclasses with any of the constructors obey the rule *)
Lemma srun_refines : forall cl subs p,
  Forall2 (nagree (fst (srun cl subs p))) (snd (srun cl subs p)) (spec_srun cl subs p).
Proof.
  intros cl subs p. unfold srun, spec_srun.
  pose proof (srun_from_refines cl (sl_full cl subs) p (heap_of 0 cl) (snd (nstate0 cl)) (senv0 cl)
                                (WFs_heap0 cl subs) (agree_state0 cl)) as R.
  cbn zeta in R. destruct R as [_ [R2 _]]. exact R2.
Qed.

(** no program alters a live instance, the shared default instances included *)
Lemma srun_heap_monotone : forall cl subs p q i o,
  nth_error (fst (srun cl subs p)) i = Some o -> nth_error (fst (srun cl subs (p ++ q))) i = Some o.
Proof.
  intros cl subs p q i o Hi. unfold srun in *. unfold srun_from in *. rewrite fold_left_app.
  fold (srun_from cl (sl_full cl subs) (nstate0 cl) p) in *.
  set (st := srun_from cl (sl_full cl subs) (nstate0 cl) p) in *.
  pose proof (srun_from_refines cl (sl_full cl subs) p (heap_of 0 cl) (snd (nstate0 cl)) (senv0 cl)
                                (WFs_heap0 cl subs) (agree_state0 cl)) as R.
  cbn zeta in R. change (heap_of 0 cl, snd (nstate0 cl)) with (nstate0 cl) in R. fold st in R.
  destruct R as [Rw [Ra _]].
  pose proof (srun_from_refines cl (sl_full cl subs) q (fst st) (snd st) _ Rw Ra) as R2.
  cbn zeta in R2. destruct R2 as [_ [_ [t Ht]]].
  replace (fst st, snd st) with st in Ht by (destruct st; reflexivity).
  unfold srun_from in Ht. rewrite Ht. rewrite nth_error_app1; [exact Hi|].
  apply nth_error_Some. congruence.
Qed.

(** ** The excluded design: the copy made through the class's own constructor *)

(** a preset subclass [def __init__(self): super().__init__(f0=9)]: updating a KNOWN field
    raises TypeError although the rule gives a value *)
Example update_via_ctor_preset_refuted :
  exists dfl pk f kw,
    all_known (length dfl) kw = true /\ kw <> [] /\ length f = length dfl /\
    update_via_ctor dfl (ctor_of (DPreset pk)) f kw = NErr NEType /\
    exists f', spec_nupdate (length dfl) f kw = NOk f'.
Proof.
  exists [VInt 5; VBool true], [(0, VInt 9)], [VInt 9; VBool true], [(1, VNone)].
  repeat split; try discriminate. eexists; reflexivity.
Qed.

(** a forcing subclass accepts the field names but re-applies its forced value: the "copy"
    silently does not carry the updated field *)
Example update_via_ctor_force_refuted :
  exists dfl pk f kw f1 f2,
    all_known (length dfl) kw = true /\
    update_via_ctor dfl (ctor_of (DForce pk)) f kw = NOk (Some f1) /\
    spec_nupdate (length dfl) f kw = NOk f2 /\ f1 <> f2.
Proof.
  exists [VInt 5; VBool true], [(0, VInt 9)], [VInt 9; VBool true], [(0, VInt 1)].
  eexists; eexists. split; [reflexivity|]. split; [reflexivity|]. split; [reflexivity|]. discriminate.
Qed.

(** for a class WITHOUT its own constructor the two designs give the same copy (which is why
    programs over plain classes cannot tell them apart) *)
Example update_via_ctor_plain_same :
  let dfl := [VInt 5; VBool true; VNone] in
  let f := [VInt 9; VBool true; VStr 1] in
  forallb (fun kw =>
             match update_via_ctor dfl (ctor_of DPlain) f kw, nupdate (length dfl) f kw with
             | NOk (Some a), NOk (Some b) => vl_eqb a b
             | NErr NEUnknown, NErr NEUnknown => true
             | _, _ => false
             end)
          [[(1, VNone)]; [(0, VInt 1); (2, VNan 0)]; [(2, VNone); (0, VBool false); (1, VInt 0)];
           [(3, VNone)]; [(0, VInt 1); (7, VNone)]] = true.
Proof. vm_compute. reflexivity. Qed.

(** a non-trivial program: a preset and a renamed-parameter subclass, copies and copies of
    copies keep the class (entries 2 and 3 of the class table) *)
Example exS_cl : list (list val) := [[VInt 50; VBool true]; [VStr 1]].
Example exS_subs : list scls := [(0, DPreset [(0, VInt 95)]); (0, DRenamed [1; 0])].
Example exS : list sop :=
  [SNew 2 [] []; SUpdate 2 [(1, VNone)]; SNew 3 [VBool false] [(1, VInt 3)];
   SRaUpdate 4 1 [(0, VInt 7)]; SUpdate 3 [(0, VInt 1)]; SHold 5 (HConvert 1 0);
   SUpdate 5 [(2, VNone)]; SNew 2 [] [(0, VInt 1)]].
Example exS_runs :
  fst (srun exS_cl exS_subs exS) =
  [(0, [VInt 50; VBool true]); (1, [VStr 1]);
   (2, [VInt 95; VBool true]); (2, [VInt 95; VNone]); (3, [VInt 3; VBool false]);
   (3, [VInt 7; VBool false]); (2, [VInt 1; VNone])] /\
  skipn 2 (snd (srun exS_cl exS_subs exS)) =
  [NOk (RObj 2); NOk (RObj 3); NOk (RObj 4); NOk (RObj 5); NOk (RObj 6); NOk (RObj 5);
   NErr NEUnknown; NErr NEType].
Proof. vm_compute. split; reflexivity. Qed.
