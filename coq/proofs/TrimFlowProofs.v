(** Proofs for [model/TrimFlow.v]: the rows a flow widget announces are the rows it renders
    because — and only as far as — [rows()] and [render()] take the same "original size fits"
    decision. *)
From Coq Require Import List ZArith Bool Lia QArith Qround.
Import ListNotations.
From TI Require Import lib.FArith lib.FPrim model.Sizing model.Trim model.TrimFlow.
Open Scope Z_scope.

(** the two methods of the code take the same decision *)
Lemma fits_rows_is_fits_render : forall maxcol fit ori,
    fits_rows maxcol fit ori = fits_render maxcol fit ori.
Proof. reflexivity. Qed.

(** equal decisions: announced = rendered, for every fit / original size, width, upscale *)
Lemma rows_agree_by : forall (dr dd : decision) maxcol upscale fit ori,
    dr maxcol fit ori = dd maxcol fit ori ->
    rows_by dr maxcol upscale fit ori = snd (canvas_size_by dd maxcol upscale fit ori)
    /\ fst (canvas_size_by dd maxcol upscale fit ori) = maxcol.
Proof.
  intros dr dd maxcol upscale fit ori H. unfold rows_by, canvas_size_by, image_size_by. cbn [fst snd].
  split; [|reflexivity]. rewrite H. destruct upscale; [reflexivity|].
  destruct (dd maxcol fit ori); reflexivity.
Qed.

(** ... and ONLY equal decisions: where the two sizes differ in height, different decisions
    announce a number of rows that is not rendered *)
Lemma rows_disagree_by : forall (dr dd : decision) maxcol fit ori,
    dr maxcol fit ori <> dd maxcol fit ori -> snd ori <> snd fit ->
    rows_by dr maxcol false fit ori <> snd (canvas_size_by dd maxcol false fit ori).
Proof.
  intros dr dd maxcol fit ori H Hh. unfold rows_by, canvas_size_by, image_size_by. cbn [snd].
  destruct (dr maxcol fit ori), (dd maxcol fit ori); congruence.
Qed.

(** the model of [model/Trim.v] is the code's pair of decisions *)
Lemma rows_by_code : forall maxcol upscale fit ori,
    rows_by fits_rows maxcol upscale fit ori = rows upscale fit ori.
Proof. reflexivity. Qed.

Lemma canvas_size_by_code : forall maxcol upscale fit ori,
    image_size_by fits_render maxcol upscale fit ori = flow_image_size upscale fit ori
    /\ canvas_size_by fits_render maxcol upscale fit ori = flow_canvas_size maxcol upscale fit ori.
Proof. split; reflexivity. Qed.

(** for EVERY float arithmetic, style family, environment (cell size, cell ratio, terminal
    size), image pixel size, width and upscale setting: the rows [rows((maxcol,))] announces are
    the rows of the canvas [render((maxcol,))] builds, which is [maxcol] columns wide *)
Theorem widget_rows_agree : forall (FA : FloatArith) fam (e : env FA) pw ph upscale maxcol,
    announced_rows fits_rows fam e pw ph upscale maxcol
    = snd (rendered_canvas fits_render fam e pw ph upscale maxcol)
    /\ fst (rendered_canvas fits_render fam e pw ph upscale maxcol) = maxcol.
Proof.
  intros. unfold announced_rows, rendered_canvas. apply rows_agree_by. apply fits_rows_is_fits_render.
Qed.

(** the image placed in the canvas is the original or the fitted one, never wider than the
    canvas when the fitted one is not *)
Lemma image_size_by_render_fits : forall maxcol upscale fit ori,
    fst fit <= maxcol ->
    fst (image_size_by fits_render maxcol upscale fit ori) <= maxcol.
Proof.
  intros maxcol upscale fit ori H. unfold image_size_by, fits_render.
  destruct upscale; [exact H|].
  destruct (fst ori <=? fst fit) eqn:E1; cbn [andb]; [|exact H].
  destruct (snd ori <=? snd fit); [|exact H]. apply Z.leb_le in E1. lia.
Qed.

(** ** the width-only decision in [render()] (excluded design) *)

(** a 19x100-pixel image on a graphics-capable terminal with 10x20-pixel cells, flow width 1
    (= the image's original width in columns): fitted to 1 column (10 px) the image is 53 px =
    2 lines high, its original size is 1 x 5 cells *)
Example witness_sizes :
  fit_of (FA := PrimFA) Graphics (cell_env 10 20) 19 100 1 = (1, 2)
  /\ ori_of (FA := PrimFA) Graphics (cell_env 10 20) 19 100 = (1, 5).
Proof. split; vm_compute; reflexivity. Qed.

(** the decisions differ there ... *)
Example width_only_differs :
  fits_rows 1 (1, 2) (1, 5) = false /\ fits_width_only 1 (1, 2) (1, 5) = true.
Proof. split; reflexivity. Qed.

(** ... so [rows((1,))] announces 2 rows and [render((1,))] builds a canvas of 5 *)
Example width_only_refuted :
  announced_rows (FA := PrimFA) fits_rows Graphics (cell_env 10 20) 19 100 false 1 = 2
  /\ rendered_canvas (FA := PrimFA) fits_width_only Graphics (cell_env 10 20) 19 100 false 1 = (1, 5).
Proof. split; vm_compute; reflexivity. Qed.

(** 405x300 pixels at flow width 40: 14 announced, 15 rendered *)
Example width_only_refuted_405 :
  announced_rows (FA := PrimFA) fits_rows Graphics (cell_env 10 20) 405 300 false 40 = 14
  /\ rendered_canvas (FA := PrimFA) fits_width_only Graphics (cell_env 10 20) 405 300 false 40 = (40, 15).
Proof. split; vm_compute; reflexivity. Qed.

(** the same witness under the code's decisions: both 2 (the theorem's instance, non-vacuity
    on a case where the two sizes differ), and one column up the original size is used by both *)
Example code_on_witness :
  announced_rows (FA := PrimFA) fits_rows Graphics (cell_env 10 20) 19 100 false 1 = 2
  /\ rendered_canvas (FA := PrimFA) fits_render Graphics (cell_env 10 20) 19 100 false 1 = (1, 2)
  /\ announced_rows (FA := PrimFA) fits_rows Graphics (cell_env 10 20) 19 100 false 2 = 5
  /\ rendered_canvas (FA := PrimFA) fits_render Graphics (cell_env 10 20) 19 100 false 2 = (2, 5).
Proof. repeat split; vm_compute; reflexivity. Qed.

(** the same in EXACT rational arithmetic (no rounding of the float operations at all; closed
    under the global context, whereas the examples above run on the kernel's primitive floats):
    the disagreement is one of the floor in pixels -> cells, not of floating point *)
Definition QFA : FloatArith :=
  {| F := Q; ofZ := inject_Z; fmul := Qmult; fdiv := Qdiv;
     fltb := fun a b => negb (Qle_bool b a); fleb := Qle_bool;
     fround := rhe; fceil := Qceiling |}.

Example witness_sizes_exact :
  fit_of (FA := QFA) Graphics (cell_env 10 20) 19 100 1 = (1, 2)
  /\ ori_of (FA := QFA) Graphics (cell_env 10 20) 19 100 = (1, 5).
Proof. split; vm_compute; reflexivity. Qed.

Example width_only_refuted_exact :
  announced_rows (FA := QFA) fits_rows Graphics (cell_env 10 20) 19 100 false 1 = 2
  /\ rendered_canvas (FA := QFA) fits_width_only Graphics (cell_env 10 20) 19 100 false 1 = (1, 5).
Proof. split; vm_compute; reflexivity. Qed.

(** stated existentially, for the statement file *)
Lemma width_only_decision_refuted :
  exists fam cw ch pw ph maxcol,
    announced_rows (FA := PrimFA) fits_rows fam (cell_env cw ch) pw ph false maxcol
    <> snd (rendered_canvas (FA := PrimFA) fits_width_only fam (cell_env cw ch) pw ph false maxcol).
Proof.
  exists Graphics, 10, 20, 19, 100, 1.
  destruct width_only_refuted as [-> ->]. cbn. discriminate.
Qed.
