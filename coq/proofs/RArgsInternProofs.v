(** Proofs about the interning protocol of the shared default set (model/RArgsIntern.v). *)
From Coq Require Import List Arith Bool.
Import ListNotations.
From TI Require Import model.RArgsIntern.

Section P.
Variable D : Type.
Variable dflt : D.

Definition pending_complete (s : st D) : Prop :=
  forall t o, pcs s t = PPub o -> complete dflt s o.

Definition inv (s : st D) : Prop :=
  published_complete dflt s /\ pending_complete s.

Lemma complete_upd :
  forall (h : nat -> option D) o o', h o' = Some dflt -> upd h o (Some dflt) o' = Some dflt.
Proof. intros h o o' H. unfold upd. destruct (Nat.eqb o' o); auto. Qed.

Ltac pcs_case t0 t :=
  unfold upd in *; destruct (Nat.eqb t0 t) eqn:?E; try discriminate; eauto.

(** publication after data-init keeps "published => complete", whatever the check is *)
Lemma step_inv :
  forall P s t, p_pub P = PubLast -> inv s -> inv (step dflt P s t).
Proof.
  intros P s t HP [I1 I2]. unfold step.
  destruct (pcs s t) as [|o|o|o|o|o] eqn:Et.
  - destruct (interned s) as [o|] eqn:Ei.
    + split.
      * intros o' H. cbn in *. apply I1. congruence.
      * intros t0 o' H. cbn in *. pcs_case t0 t.
    + split.
      * intros o' H. cbn in *. congruence.
      * intros t0 o' H. cbn in *. pcs_case t0 t.
  - destruct (initialised P s o).
    + split.
      * intros o' H. cbn in *. apply I1; auto.
      * intros t0 o' H. cbn in *. pcs_case t0 t.
    + rewrite HP. split.
      * intros o' H. cbn in *. apply I1; auto.
      * intros t0 o' H. cbn in *. pcs_case t0 t.
  - split.
    + intros o' H. cbn in *. apply I1; auto.
    + intros t0 o' H. cbn in *. pcs_case t0 t.
  - rewrite HP. split.
    + intros o' H. unfold complete. cbn in *. apply complete_upd. apply I1; auto.
    + intros t0 o' H. unfold complete. cbn in *.
      unfold upd in H. destruct (Nat.eqb t0 t) eqn:E.
      * inversion H; subst. unfold upd. rewrite Nat.eqb_refl. reflexivity.
      * apply complete_upd. eapply I2; eauto.
  - split.
    + intros o' H. cbn in *. inversion H; subst. eapply I2; eauto.
    + intros t0 o' H. cbn in *. pcs_case t0 t.
  - split; auto.
Qed.

Lemma inv0 : inv st0.
Proof. split; intros; cbn in *; discriminate. Qed.

Lemma run_inv_from :
  forall P sched s, p_pub P = PubLast -> inv s -> inv (fold_left (step dflt P) sched s).
Proof.
  intros P sched. induction sched as [|t r IH]; intros s HP Hs; cbn; auto.
  apply IH; auto. apply step_inv; auto.
Qed.

(** the object in [_interned] is complete at every moment of every interleaving *)
Lemma published_complete_always :
  forall P sched, p_pub P = PubLast -> published_complete dflt (run dflt P sched).
Proof. intros P sched HP. apply (run_inv_from P sched st0 HP inv0). Qed.

(** with the code's check, every returned object is complete, too *)
Lemma step_returned :
  forall s t, inv s -> returned_complete dflt s ->
              returned_complete dflt (step dflt code_proto s t).
Proof.
  intros s t [I1 I2] I3. unfold step.
  destruct (pcs s t) as [|o|o|o|o|o] eqn:Et.
  - destruct (interned s) as [o|] eqn:Ei; intros t0 o' H; cbn in *; pcs_case t0 t.
  - unfold initialised. cbn. destruct (interned s) as [oi|] eqn:Ei.
    + destruct (Nat.eqb oi o) eqn:Eo.
      * apply Nat.eqb_eq in Eo. subst oi. intros t0 o' H. cbn in *.
        unfold upd in H. destruct (Nat.eqb t0 t) eqn:E.
        -- inversion H; subst. apply I1; auto.
        -- eapply I3; eauto.
      * intros t0 o' H. cbn in *. pcs_case t0 t.
    + intros t0 o' H. cbn in *. pcs_case t0 t.
  - intros t0 o' H. cbn in *. pcs_case t0 t.
  - intros t0 o' H. unfold complete. cbn in *. apply complete_upd.
    unfold upd in H. destruct (Nat.eqb t0 t) eqn:E; try discriminate. eapply I3; eauto.
  - intros t0 o' H. cbn in *. unfold upd in H. destruct (Nat.eqb t0 t) eqn:E.
    + inversion H; subst. eapply I2; eauto.
    + eapply I3; eauto.
  - auto.
Qed.

Lemma run_returned_from :
  forall sched s, inv s -> returned_complete dflt s ->
    returned_complete dflt (fold_left (step dflt code_proto) sched s).
Proof.
  induction sched as [|t r IH]; intros s Hs Hr; cbn; auto.
  apply IH. - apply step_inv; auto. - apply step_returned; auto.
Qed.

Lemma returned_complete_always :
  forall sched, returned_complete dflt (run dflt code_proto sched).
Proof.
  intros sched. apply run_returned_from. - apply inv0. - intros t o H. cbn in H. discriminate.
Qed.

(** the statement of the property for interleaved first requests: whatever the schedule
    and the number of threads, every object in [_interned] and every object a request
    returned is complete and holds the default namespaces *)
Lemma interned_default_complete :
  forall sched,
    let s := run dflt code_proto sched in
    (forall o, interned s = Some o -> heap s o = Some dflt) /\
    (forall t o, result_of s t = Some o -> heap s o = Some dflt).
Proof.
  intros sched s. split.
  - apply published_complete_always. reflexivity.
  - intros t o H. unfold result_of in H. destruct (pcs s t) eqn:E; try discriminate.
    inversion H; subst. eapply returned_complete_always; eauto.
Qed.

(** value semantics: two requests always get sets holding the same namespaces *)
Lemma interned_default_same_value :
  forall sched t1 t2 o1 o2,
    let s := run dflt code_proto sched in
    result_of s t1 = Some o1 -> result_of s t2 = Some o2 ->
    heap s o1 = heap s o2 /\ heap s o1 = Some dflt.
Proof.
  intros sched t1 t2 o1 o2 s H1 H2.
  destruct (interned_default_complete sched) as [_ Hr].
  split.
  - transitivity (Some dflt). + apply (Hr t1 o1 H1). + symmetry. apply (Hr t2 o2 H2).
  - apply (Hr t1 o1 H1).
Qed.

End P.

(** ... but not necessarily the same OBJECT: both first requests may build their own, the
    later publication replaces the earlier; a third request gets the later one *)
Lemma interned_default_identity_may_differ :
  exists sched,
    let s := run tt code_proto sched in
    result_of s 0 = Some 0 /\ result_of s 1 = Some 1 /\ result_of s 2 = Some 0 /\
    interned s = Some 0 /\ heap s 0 = Some tt /\ heap s 1 = Some tt.
Proof. exists [0; 1; 1; 1; 1; 1; 0; 0; 0; 0; 2; 2]. cbv. repeat split. Qed.

(** non-vacuity of the main statement on that schedule: there are returned objects *)
Example interned_default_nonvacuous :
  let s := run 7 code_proto [0; 1; 1; 1; 1; 1; 0; 0; 0; 0; 2; 2] in
  result_of s 1 = Some 1 /\ heap s 1 = Some 7.
Proof. cbv. split; reflexivity. Qed.

(** the excluded order: publish, then build.  Thread 0 is pre-empted after publishing its
    empty object, thread 1's whole request is served from the cell: it gets an object
    that holds nothing *)
Lemma publish_before_build_refuted :
  forall c, exists sched t o,
    let s := run tt {| p_chk := c; p_pub := PubFirst |} sched in
    result_of s t = Some o /\ interned s = Some o /\ heap s o = None.
Proof. intros c. exists [0; 0; 1; 1], 1, 0. destruct c; cbv; repeat split. Qed.

(** the presence test (upstream before the fix): thread 1 allocates its object, thread 0
    serves a whole request and publishes, thread 1's __init__ then sees the class in
    [_interned], believes ITS object has been initialised and returns it empty.  (The cell
    itself always holds a complete object: [published_complete_always].) *)
Lemma presence_test_refuted :
  exists sched t o,
    let s := run tt {| p_chk := ChkPresent; p_pub := PubLast |} sched in
    result_of s t = Some o /\ heap s o = None /\
    exists o', interned s = Some o' /\ o' <> o /\ heap s o' = Some tt.
Proof.
  exists [1; 0; 0; 0; 0; 0; 1], 1, 0. cbv. repeat split. exists 1. repeat split. discriminate.
Qed.
