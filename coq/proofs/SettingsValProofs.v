(** Proofs about [model/SettingsVal.v] (C20): the argument checks of the setters over the
    whole universe of Python values. *)
From Coq Require Import List ZArith Bool Arith Lia.
Import ListNotations.
From TI Require Import model.Settings model.SettingsVal proofs.SettingsProofs.
Local Arguments Nat.eqb : simpl never.
Local Open Scope Z_scope.

(** *** strings: [lower] + membership is case-insensitive comparison with a name *)

Definition is_lower (d : Z) : bool := (97 <=? d) && (d <=? 122).

Lemma lower_cp_ci c d : is_lower d = true -> (lower_cp c =? d) = ci_cp c d.
Proof.
  unfold is_lower, lower_cp, ci_cp, is_upper. intros Hd.
  apply andb_true_iff in Hd. destruct Hd as [H1 H2].
  apply Z.leb_le in H1. apply Z.leb_le in H2.
  destruct (Z.leb_spec 65 c), (Z.leb_spec c 90); cbn [andb orb];
    rewrite ?orb_false_r; try reflexivity.
  destruct (Z.eqb_spec c d); [lia|]. reflexivity.
Qed.

Lemma cps_lower_ci s : forall name,
  forallb is_lower name = true -> cps_eqb (lower s) name = ci_eqb s name.
Proof.
  induction s as [|c s IH]; intros [|d name] H; cbn in *; try reflexivity.
  apply andb_true_iff in H. destruct H as [Hd Hn].
  rewrite lower_cp_ci by exact Hd. rewrite IH by exact Hn. reflexivity.
Qed.

Lemma index_ci s : forall l i,
  forallb (forallb is_lower) l = true ->
  SettingsVal.index_from i (lower s) l = match ci_find i s l with Some z => z | None => -1 end.
Proof.
  induction l as [|x l IH]; intros i H; cbn in *; [reflexivity|].
  apply andb_true_iff in H. destruct H as [Hx Hl].
  rewrite cps_lower_ci by exact Hx. destruct (ci_eqb s x); [reflexivity|]. apply IH, Hl.
Qed.

Lemma ci_find_range s : forall l i z,
  ci_find i s l = Some z -> i <= z < i + Z.of_nat (length l).
Proof.
  induction l as [|x l IH]; intros i z H; cbn [ci_find] in H; [discriminate|].
  cbn [length]. destruct (ci_eqb s x).
  - inversion H; subst. lia.
  - apply IH in H. lia.
Qed.

Lemma names_lower n : forallb (forallb is_lower) (names n) = true.
Proof. destruct n as [|[|[|[|n]]]]; reflexivity. Qed.

Lemma names_length n : (length (names n) <= n)%nat.
Proof. unfold names. apply firstn_le_length. Qed.

Lemma ci_find_empty n i : ci_find i [] (names n) = None.
Proof. destruct n as [|[|[|[|n]]]]; reflexivity. Qed.

(** *** the code's checks compute the documented meaning, for EVERY value *)

Lemma front_rm_doc n lv v :
  front (SRm n) lv v = to_fres (doc_meaning (SRm n) lv v).
Proof.
  assert (H : front_rm_cls n v = to_fres (doc_meaning (SRm n) lv v)).
  { unfold front_rm_cls. destruct v; try reflexivity.
    cbn [is_none is_str negb andb str_of doc_meaning].
    unfold mem_z, index_z. rewrite (index_ci s (names n) 0 (names_lower n)).
    destruct s as [|c s].
    - rewrite ci_find_empty. reflexivity.
    - destruct (ci_find 0 (c :: s) (names n)) as [z|] eqn:E; [|reflexivity].
      apply ci_find_range in E.
      destruct (Z.leb_spec 0 z); [|lia]. reflexivity. }
  destruct lv; exact H.
Qed.

Theorem front_is_doc st lv v : front st lv v = to_fres (doc_meaning st lv v).
Proof.
  destruct st as [n| | | |].
  - apply front_rm_doc.
  - destruct lv; [|reflexivity]. destruct v; try reflexivity; try (destruct b; reflexivity).
  - destruct v; try reflexivity; try (destruct b; reflexivity).
    cbn. destruct (Z.gtb_spec z 95), (Z.leb_spec z 95); try lia; reflexivity.
  - destruct v; try reflexivity; try (destruct b; reflexivity).
  - destruct lv; [|reflexivity]. destruct v; try reflexivity; try (destruct b; reflexivity).
    cbn. destruct (Z.leb_spec z 0), (Z.ltb_spec 0 z); try lia; reflexivity.
Qed.

Lemma has_del_doc st lv : has_del st lv = doc_del st lv.
Proof. destruct st, lv; reflexivity. Qed.

(** *** invalid values are rejected without changing anything — every value of the
        universe, every setting, every level, from every state *)

Theorem invalid_rejected st par u lv t v :
  valid_for st lv v = false ->
  exists e, doc_meaning st lv v = MInvalid e /\ vstep st par u (VSet lv t v) = (u, VRej e).
Proof.
  unfold valid_for. intros H. destruct (doc_meaning st lv v) as [z| |e] eqn:E; try discriminate.
  exists e. split; [reflexivity|]. cbn [vstep]. rewrite front_is_doc, E. reflexivity.
Qed.

(** ... in particular after every prior history, and nobody sees a difference *)
Theorem invalid_rejected_no_change st par icls nc ni hist lv t v :
  valid_for st lv v = false ->
  let u := vrun st par hist in
  let r := vstep st par u (VSet lv t v) in
  (exists e, doc_meaning st lv v = MInvalid e /\ snd r = VRej e) /\
  fst r = u /\
  vobserve st par icls nc ni (fst r) = vobserve st par icls nc ni u.
Proof.
  intros H u r. destruct (invalid_rejected st par u lv t v H) as (e & Hd & Hs).
  subst r. rewrite Hs. cbn [fst snd]. repeat split. exists e. split; [exact Hd|reflexivity].
Qed.

Theorem accepted_iff_valid st par u lv t v :
  snd (vstep st par u (VSet lv t v)) = VOk <-> valid_for st lv v = true.
Proof.
  cbn [vstep]. rewrite front_is_doc. unfold valid_for.
  destruct (doc_meaning st lv v); cbn; split; intros; try reflexivity; discriminate.
Qed.

(** a write through an instance to a class-only setting: an AttributeError for EVERY
    value, valid for the class or not *)
Theorem class_only_setting_instance_write st par u t v :
  st = SFs \/ st = SNam ->
  vstep st par u (VSet LInst t v) = (u, VRej AttrErr)
  /\ vstep st par u (VDel LInst t) = (u, VRej AttrErr).
Proof. intros [->| ->]; split; reflexivity. Qed.

(** only [None], and only for the render method, unsets: no other value of any type —
    falsy or not — is ever taken for "unset" *)
Lemma doc_unset_only_none st lv v :
  doc_meaning st lv v = MUnset <-> (exists n, st = SRm n) /\ v = VNone.
Proof.
  split.
  - intros H. destruct st as [n| | | |]; destruct lv; destruct v; cbn in H;
      repeat match type of H with
             | context [match ?x with _ => _ end] => destruct x
             end; try discriminate; split; eauto.
  - intros [[n ->] ->]. reflexivity.
Qed.

Theorem unset_only_by_none st lv v :
  front st lv v = FUnset <-> (exists n, st = SRm n) /\ v = VNone.
Proof.
  rewrite front_is_doc. rewrite <- (doc_unset_only_none st lv v).
  destruct (doc_meaning st lv v); cbn; split; intros; try reflexivity; discriminate.
Qed.

(** every value that is neither a string nor [None] — whatever its truth value — is a
    TypeError for the render method, at both levels, from every state *)
Theorem non_string_render_method_type_error n par u lv t v :
  is_str v = false -> v <> VNone ->
  vstep (SRm n) par u (VSet lv t v) = (u, VRej TypeErr).
Proof.
  intros Hs Hn. cbn [vstep]. rewrite front_is_doc.
  destruct v; cbn in *; try discriminate; try congruence; reflexivity.
Qed.

(** every string that is not one of the style's names up to case — the empty string,
    padded names, names of other styles' methods — is a ValueError *)
Theorem unknown_string_render_method_value_error n par u lv t s :
  ci_find 0 s (names n) = None ->
  vstep (SRm n) par u (VSet lv t (VStr s)) = (u, VRej ValueErr).
Proof. intros H. cbn [vstep]. rewrite front_is_doc. cbn. rewrite H. reflexivity. Qed.

(** *** the excluded design: dispatching on the argument's truth value takes every falsy
        value of the wrong type for [None] *)
Theorem truthy_dispatch_refuted n lv v :
  truthy v = false -> is_str v = false -> v <> VNone ->
  valid_for (SRm n) lv v = false /\ front_rm_truthy n v = FUnset.
Proof.
  intros Ht Hs Hn. split.
  - destruct v; cbn in *; try discriminate; try congruence; reflexivity.
  - unfold front_rm_truthy. rewrite Hs, Ht. reflexivity.
Qed.

(** *** value-level histories: the documented reading *)

Lemma doc_set_valid st k lv v z :
  kind_of st = Some k -> doc_meaning st lv v = MSet z ->
  k_valid k z = true /\ (lv = LInst -> k_inst_set k = true).
Proof.
  intros Hk H. destruct st as [n| | | |]; inversion Hk; subst k; clear Hk.
  - split; [|reflexivity]. cbn [doc_meaning] in H. destruct v; try discriminate.
    destruct (ci_find 0 s (names n)) as [z'|] eqn:E; try discriminate. inversion H; subst z'.
    apply ci_find_range in E. pose proof (names_length n).
    cbn. apply andb_true_iff. split; [apply Z.leb_le|apply Z.ltb_lt]; lia.
  - destruct lv; cbn in H; try discriminate. destruct v; try discriminate.
    inversion H. split; [destruct b; reflexivity|discriminate].
  - split; [|reflexivity]. cbn in H. destruct v; try discriminate.
    + destruct (Z.leb_spec z0 95); try discriminate. inversion H; subst. cbn.
      apply Z.leb_le. lia.
    + inversion H. destruct b; reflexivity.
  - split; [|reflexivity]. cbn in H. destruct v; try discriminate.
    inversion H. destruct b; reflexivity.
Qed.

Lemma vstep_doc st k par u o :
  kind_of st = Some k ->
  u_s (fst (vstep st par u o))
  = fold_left (fun s o => fst (step k par s o)) (doc_op st o) (u_s u).
Proof.
  intros Hk. destruct o as [lv t v|lv t].
  - cbn [vstep doc_op]. rewrite front_is_doc.
    destruct (doc_meaning st lv v) as [z| |e] eqn:E; cbn [to_fres fst fold_left].
    + destruct (doc_set_valid st k lv v z Hk E) as [Hv Hi].
      unfold do_set. rewrite Hk. destruct lv; cbn [step u_s].
      * rewrite Hv. reflexivity.
      * rewrite (Hi eq_refl), Hv. reflexivity.
    + apply doc_unset_only_none in E. destruct E as [[n ->] ->].
      inversion Hk; subst k. destruct lv; reflexivity.
    + reflexivity.
  - cbn [vstep doc_op]. rewrite has_del_doc.
    destruct st as [n| | | |]; inversion Hk; subst k; destruct lv; reflexivity.
Qed.

Lemma vstep_keeps_g st k par u o :
  kind_of st = Some k -> u_g (fst (vstep st par u o)) = u_g u.
Proof.
  intros Hk. destruct o as [lv t v|lv t]; cbn [vstep].
  - destruct (front st lv v); cbn [fst]; try reflexivity;
      unfold do_set, do_unset; rewrite Hk; destruct lv; reflexivity.
  - destruct (has_del st lv); cbn [fst]; try reflexivity.
    unfold do_unset; rewrite Hk; destruct lv; reflexivity.
Qed.

Lemma doc_nam_pos lv v z : doc_meaning SNam lv v = MSet z -> (0 <? z) = true.
Proof.
  destruct lv; cbn; try discriminate. destruct v; try discriminate.
  - destruct (0 <? z0) eqn:E; try discriminate. intros H; inversion H; subst. exact E.
  - destruct b; try discriminate. intros H; inversion H. reflexivity.
Qed.

Lemma vstep_gdoc par u o :
  u_g (fst (vstep SNam par u o))
  = fold_left (fun g o => fst (gstep g o)) (doc_gop o) (u_g u).
Proof.
  destruct o as [lv t v|lv t].
  - cbn [vstep doc_gop]. rewrite front_is_doc.
    destruct (doc_meaning SNam lv v) as [z| |e] eqn:E; cbn [to_fres fst fold_left].
    + cbn. rewrite (doc_nam_pos lv v z E). reflexivity.
    + apply doc_unset_only_none in E. destruct E as [[n Hn] _]. discriminate.
    + reflexivity.
  - cbn [vstep doc_gop]. destruct lv; reflexivity.
Qed.

Lemma vfold_doc st k par (Hk : kind_of st = Some k) ops : forall u,
  u_s (fold_left (fun u o => fst (vstep st par u o)) ops u)
  = fold_left (fun s o => fst (step k par s o)) (doc_ops st ops) (u_s u).
Proof.
  induction ops as [|o ops IH]; intros u; [reflexivity|].
  cbn [fold_left doc_ops flat_map]. rewrite fold_left_app, IH.
  rewrite (vstep_doc st k par u o Hk). reflexivity.
Qed.

Lemma vfold_gdoc par ops : forall u,
  u_g (fold_left (fun u o => fst (vstep SNam par u o)) ops u)
  = fold_left (fun g o => fst (gstep g o)) (doc_gops ops) (u_g u).
Proof.
  induction ops as [|o ops IH]; intros u; [reflexivity|].
  cbn [fold_left doc_gops flat_map]. rewrite fold_left_app, IH, vstep_gdoc. reflexivity.
Qed.

(** the dictionaries after a value-level history are those of its documented reading *)
Theorem vrun_doc st k par ops :
  kind_of st = Some k -> u_s (vrun st par ops) = run k par (doc_ops st ops).
Proof.
  intros Hk. unfold vrun, run. rewrite (vfold_doc st k par Hk).
  unfold uinit. rewrite Hk. reflexivity.
Qed.

Theorem vrun_gdoc par ops : u_g (vrun SNam par ops) = grun (doc_gops ops).
Proof. unfold vrun, grun. rewrite vfold_gdoc. reflexivity. Qed.

Lemma vrun_snoc st par ops o :
  vrun st par (ops ++ [o]) = fst (vstep st par (vrun st par ops) o).
Proof. unfold vrun. rewrite fold_left_app. reflexivity. Qed.

Lemma map_const_seq {A} (c : A) n : forall a b,
  map (fun _ : nat => c) (seq a n) = map (fun _ : nat => c) (seq b n).
Proof. induction n as [|n IH]; intros a b; cbn; [reflexivity|]. f_equal. apply IH. Qed.

(** *** main statement at value level: after every history of set / delete operations
        with values of the whole universe, every class and instance reads what the
        documented rule says on the documented reading of the history (in which invalid
        operations do not occur at all) *)
Theorem vobserve_spec st par icls nc ni ops :
  wf_par par ->
  vobserve st par icls nc ni (vrun st par ops) = vspec_observe st par icls nc ni ops.
Proof.
  intros Hwf. unfold vobserve, vspec_observe. destruct (kind_of st) as [k|] eqn:Hk.
  - rewrite (vrun_doc st k par ops Hk). unfold observe, spec_observe. f_equal.
    + apply map_ext. intros c. apply cls_lookup_spec, Hwf.
    + apply map_ext. intros i. apply inst_lookup_spec, Hwf.
  - destruct st; try discriminate. rewrite vrun_gdoc.
    rewrite seq_app, map_app. cbn [plus].
    destruct (native_anim_global (doc_gops ops) 0%nat 0%nat) as [Hg _]. unfold gread in *.
    rewrite Hg. f_equal. apply map_const_seq.
Qed.

Lemma vstep_out st par u o : snd (vstep st par u o) = doc_out st o.
Proof.
  destruct o as [lv t v|lv t]; cbn [vstep doc_out].
  - rewrite front_is_doc. destruct (doc_meaning st lv v); reflexivity.
  - rewrite has_del_doc. destruct (doc_del st lv); reflexivity.
Qed.

(** soundness of the tie's two sides against each other: the model's trace of outcomes
    and readings IS the specification's trace *)
Lemma vtrace_spec_aux st par icls nc ni (Hwf : wf_par par) todo : forall done,
  vtrace st par icls nc ni (vrun st par done) todo
  = vspec_trace_aux st par icls nc ni done todo.
Proof.
  induction todo as [|o todo IH]; intros done; [reflexivity|].
  cbn [vtrace vspec_trace_aux].
  destruct (vstep st par (vrun st par done) o) as [u' x] eqn:E.
  assert (Hu : u' = vrun st par (done ++ [o])) by (rewrite vrun_snoc, E; reflexivity).
  assert (Hx : x = doc_out st o) by (rewrite <- (vstep_out st par (vrun st par done) o), E; reflexivity).
  subst u' x. rewrite vobserve_spec by exact Hwf. rewrite IH. reflexivity.
Qed.

Theorem vtrace_spec st par icls nc ni ops :
  wf_par par ->
  vtrace st par icls nc ni (uinit st) ops = vspec_trace st par icls nc ni ops.
Proof. intros Hwf. exact (vtrace_spec_aux st par icls nc ni Hwf ops []). Qed.

(** *** non-vacuity: an iterm2 forest 0 <- 1 <- 2, instance 0 of class 2 with its own
        WHOLE; every falsy wrong-type value, an empty / padded / foreign string are
        rejected with the documented error and change nothing; [None] alone unsets *)
Definition exv_par := parf [0; 0; 1]%nat.
Lemma exv_par_wf : wf_par exv_par.
Proof.
  intros c Hc. unfold exv_par, parf.
  destruct c as [|[|[|c]]]; cbn; try lia. destruct c; cbn; lia.
Qed.
Definition exv_falsy : list val :=
  [VInt 0; VBool false; VFloat (FFin 0 1); VTuple []; VList []; VSized 0; VBytes []; VObj false;
   VStr []; VStr (32 :: LINES_S); VStr [78; 111; 110; 101]].
Definition exv_hist : list vop :=
  [VSet LCls 1 (VStr [65; 78; 73; 77]); VSet LInst 0 (VStr [87; 104; 79; 108; 69])]
  ++ map (VSet LInst 0) exv_falsy ++ map (VSet LCls 1) exv_falsy.
Example exv_values :
  let st := SRm 3 in
  let icls := parf [2%nat] in
  forallb (fun v => negb (valid_for st LInst v)) exv_falsy = true /\
  vobserve st exv_par icls 3 1 (vrun st exv_par exv_hist) = [0; 2; 2; 1] /\
  map (fun o => vout_code (snd (vstep st exv_par (vrun st exv_par exv_hist) o)))
      (map (VSet LInst 0%nat) exv_falsy) = [1; 1; 1; 1; 1; 1; 1; 1; 2; 2; 2] /\
  vobserve st exv_par icls 3 1 (vrun st exv_par (exv_hist ++ [VSet LInst 0%nat VNone]))
  = [0; 2; 2; 2].
Proof. vm_compute. repeat split. Qed.

(** jpeg_quality / limit: booleans are integers, floats and [None] are not, range ends *)
Example exv_int_settings :
  map (fun v => vout_code (doc_out SJq (VSet LInst 0%nat v)))
      [VInt 95; VInt 96; VInt (-7); VBool true; VBool false; VFloat (FFin 5 1); VNone; VStr []; VInt 0]
  = [0; 2; 0; 0; 0; 1; 1; 1; 0] /\
  map (fun v => vout_code (doc_out SNam (VSet LCls 0%nat v)))
      [VInt 1; VInt 0; VInt (-1); VBool true; VBool false; VFloat (FFin 1 1); VNone; VTuple []]
  = [0; 2; 2; 0; 2; 1; 1; 1] /\
  map (fun v => vout_code (doc_out SNam (VSet LInst 0%nat v))) [VInt 1; VInt 0; VNone] = [3; 3; 3].
Proof. vm_compute. repeat split. Qed.
