(** * BlockSeqSrcProofs — the source objects behind a render sequence stay what they are
    ([model/BlockSeqSrc.v]): under the code's policy (no decoder is ever configured) every
    request of every sequence is served from the FULL decode of its frame, whatever was
    rendered before at whatever size -- so the sequence model [BlockSeq.bs_run] with the one
    world [full_src] IS the behaviour --, and every source object handed in by the caller is
    intact afterwards.  A policy that configures the decoder for small renders ("draft") is
    refuted on both counts. *)
From Coq Require Import List ZArith Bool Arith Lia.
Import ListNotations.
From TI Require Import lib.Term model.Block model.RenderData model.BlockSeq model.BlockSeqSrc
     proofs.BlockSeqProofs.
Open Scope Z_scope.

Section P.
Variable comp : Z -> Z -> Z -> Z.
Variable image : Type.
Variable dec : nat -> nat -> nat -> image.
Variable resample : image -> csize -> frame.
Variable persistent : nat -> bool.

Notation step := (srcs_step comp image dec resample persistent full_policy).
Notation run := (srcs_run comp image dec resample persistent full_policy).
Notation final := (srcs_final comp image dec resample persistent full_policy).
Notation fsrc := (full_src image dec resample).

(** the hypothesis on the start of the sequence: the PIL images the caller hands in are his
    images -- not loaded yet, or loaded in full *)
Definition callers_intact (ds : dstates) : Prop :=
  forall i, persistent i = true -> intact (ds i) = true.

Lemma full_read_scale ds i sz :
  callers_intact ds -> read_scale persistent full_policy ds i sz = 1%nat.
Proof.
  intros H. unfold read_scale. destruct (persistent i) eqn:P; [|reflexivity].
  specialize (H i P). destruct (ds i) as [|d]; [reflexivity|].
  cbn in *. now apply Nat.eqb_eq in H.
Qed.

Lemma full_after_read ds i sz :
  callers_intact ds -> callers_intact (after_read persistent full_policy ds i sz).
Proof.
  intros H j Pj. unfold after_read. destruct (persistent i) eqn:P; [|now apply H].
  unfold ds_upd. destruct (Nat.eqb j i); [|now apply H].
  rewrite full_read_scale by assumption. reflexivity.
Qed.

(** one step: the same output and the same selection state as the sequence model over the
    world of full decodes; the callers' objects stay intact *)
Lemma full_step bs ds o :
  callers_intact ds ->
  snd (step (bs, ds) o) = snd (bs_step comp fsrc bs o)
  /\ fst (fst (step (bs, ds) o)) = fst (bs_step comp fsrc bs o)
  /\ callers_intact (snd (fst (step (bs, ds) o))).
Proof.
  intros H. destruct o as [j n|j sz|j s|j n s|]; cbn [srcs_step bs_step fst snd];
    try (split; [reflexivity | split; [reflexivity | assumption]]).
  - rewrite full_read_scale by assumption. split; [reflexivity | split; [reflexivity | now apply full_after_read]].
  - rewrite full_read_scale by assumption. split; [reflexivity | split; [reflexivity | now apply full_after_read]].
Qed.

(** *** THE refinement: for every sequence, the outputs are those of [BlockSeq.bs_run] over
    the one world [full_src] -- the decoder state is invisible *)
Theorem srcs_full_refines ops : forall bs ds,
  callers_intact ds ->
  run (bs, ds) ops = bs_run comp fsrc bs ops.
Proof.
  induction ops as [|o ops IH]; intros bs ds H; [reflexivity|].
  cbn [srcs_run bs_run].
  destruct (full_step bs ds o H) as (Ho & Hs & Hi).
  destruct (step (bs, ds) o) as [[bs' ds'] out] eqn:E.
  destruct (bs_step comp fsrc bs o) as [bs2 out2] eqn:E2.
  cbn [fst snd] in *. subst. f_equal. now apply IH.
Qed.

(** *** ... and every object the caller handed in is intact after the sequence *)
Theorem srcs_full_callers_intact ops : forall bs ds,
  callers_intact ds -> callers_intact (snd (final (bs, ds) ops)).
Proof.
  induction ops as [|o ops IH]; intros bs ds H; [exact H|].
  cbn [srcs_final].
  destruct (full_step bs ds o H) as (_ & _ & Hi).
  destruct (step (bs, ds) o) as [[bs' ds'] out]. cbn [fst snd] in *. now apply IH.
Qed.

(** reading the caller's image after ANY sequence yields the full decode of the frame *)
Theorem srcs_full_caller_view ops bs ds i n :
  callers_intact ds -> persistent i = true ->
  caller_view image dec (snd (final (bs, ds) ops)) i n = dec i n 1%nat.
Proof.
  intros H P. pose proof (srcs_full_callers_intact ops bs ds H i P) as Hi.
  unfold caller_view. destruct (snd (final (bs, ds) ops) i) as [|d]; [reflexivity|].
  cbn in Hi. apply Nat.eqb_eq in Hi. now subst.
Qed.

(** *** the output of a request is the render of the FULL decode of the frame its own
    history selects, at the size last set on its own instance: it does not depend on the sizes
    (or anything else) of the requests served before, nor on which objects were loaded when *)
Theorem srcs_output_of_request_alone bs ds pre i s post :
  callers_intact ds ->
  nth_error (run (bs, ds) (pre ++ ORender i s :: post)) (length pre)
  = Some (Some {| r_inst := i;
                  r_frame := sel_pos i (pos (bs i)) pre;
                  r_size := sel_size i (isize (bs i)) pre;
                  r_toks := render_of comp
                              (resample (dec i (sel_pos i (pos (bs i)) pre) 1%nat)
                                        (sel_size i (isize (bs i)) pre)) s |}).
Proof.
  intros H. rewrite srcs_full_refines by assumption. apply seq_output.
Qed.

Theorem srcs_independent_of_earlier_sizes bs ds pre i s post bs' ds' pre' post' :
  callers_intact ds -> callers_intact ds' ->
  sel_pos i (pos (bs i)) pre = sel_pos i (pos (bs' i)) pre' ->
  sel_size i (isize (bs i)) pre = sel_size i (isize (bs' i)) pre' ->
  nth_error (run (bs, ds) (pre ++ ORender i s :: post)) (length pre)
  = nth_error (run (bs', ds') (pre' ++ ORender i s :: post')) (length pre').
Proof.
  intros H H' Hp Hs. rewrite !srcs_output_of_request_alone by assumption.
  rewrite Hp, Hs. reflexivity.
Qed.

End P.

(** the statements as exported by [props/C02.v] *)
Lemma srcs_full :
  (forall comp image dec resample persistent ops bs ds,
     callers_intact persistent ds ->
     srcs_run comp image dec resample persistent full_policy (bs, ds) ops
     = bs_run comp (full_src image dec resample) bs ops)
  /\
  (forall comp image dec resample persistent ops bs ds i n,
     callers_intact persistent ds -> persistent i = true ->
     intact (snd (srcs_final comp image dec resample persistent full_policy (bs, ds) ops) i) = true
     /\ caller_view image dec (snd (srcs_final comp image dec resample persistent full_policy (bs, ds) ops)) i n
        = dec i n 1%nat).
Proof.
  split; [intros; now apply srcs_full_refines|].
  intros. split; [now apply (srcs_full_callers_intact comp image dec resample persistent ops bs ds)
                 | now apply srcs_full_caller_view].
Qed.

Lemma srcs_requests :
  (forall comp image dec resample persistent bs ds pre i s post,
     callers_intact persistent ds ->
     nth_error (srcs_run comp image dec resample persistent full_policy (bs, ds) (pre ++ ORender i s :: post)) (length pre)
     = Some (Some {| r_inst := i;
                     r_frame := sel_pos i (pos (bs i)) pre;
                     r_size := sel_size i (isize (bs i)) pre;
                     r_toks := render_of comp
                                 (resample (dec i (sel_pos i (pos (bs i)) pre) 1%nat)
                                           (sel_size i (isize (bs i)) pre)) s |}))
  /\
  (forall comp image dec resample persistent bs ds pre i s post bs' ds' pre' post',
     callers_intact persistent ds -> callers_intact persistent ds' ->
     sel_pos i (pos (bs i)) pre = sel_pos i (pos (bs' i)) pre' ->
     sel_size i (isize (bs i)) pre = sel_size i (isize (bs' i)) pre' ->
     nth_error (srcs_run comp image dec resample persistent full_policy (bs, ds) (pre ++ ORender i s :: post)) (length pre)
     = nth_error (srcs_run comp image dec resample persistent full_policy (bs', ds') (pre' ++ ORender i s :: post')) (length pre')).
Proof.
  split; [intros; now apply srcs_output_of_request_alone | intros; now apply srcs_independent_of_earlier_sizes].
Qed.

(** *** a concrete world: a source of 2 x 4 pixels (2 columns x 2 lines of cells at its own
    pixel size, 1 column x 1 line at half scale), decoded in full ([EFull]) or by the decoder's
    1/2-scale mode ([EHalf]: NOT the BOX means of the full decode) *)
Inductive eimg := EFull | EHalf.
Definition ex_dec (_ _ d : nat) : eimg := if Nat.eqb d 1 then EFull else EHalf.
Definition opq (r g b : Z) : spx := {| s_rgb := (r, g, b); s_a := 255 |}.
Definition ex_resample (im : eimg) (sz : csize) : frame :=
  match im, sz with
  | EFull, (2, 2)%nat =>            (* pixel-for-pixel *)
    {| f_has_alpha := false;
       f_rows := [[(opq 10 0 0, opq 30 0 0); (opq 20 0 0, opq 40 0 0)];
                  [(opq 50 0 0, opq 70 0 0); (opq 60 0 0, opq 80 0 0)]] |}
  | EFull, (1, 1)%nat =>            (* BOX means of the 2 x 2 blocks *)
    {| f_has_alpha := false; f_rows := [[(opq 25 0 0, opq 65 0 0)]] |}
  | EHalf, (1, 1)%nat =>            (* the decoder's own 1/2 scale *)
    {| f_has_alpha := false; f_rows := [[(opq 27 0 0, opq 62 0 0)]] |}
  | EHalf, (2, 2)%nat =>            (* the 1 x 2 leftover blown up *)
    {| f_has_alpha := false;
       f_rows := [[(opq 27 0 0, opq 27 0 0); (opq 27 0 0, opq 27 0 0)];
                  [(opq 62 0 0, opq 62 0 0); (opq 62 0 0, opq 62 0 0)]] |}
  | _, _ => {| f_has_alpha := false; f_rows := [] |}
  end.
Definition ex_plain : settings :=
  {| st_alpha := ANone; st_termbg := None; st_kitty := false; st_split := false |}.
Definition ex_bs0 : bs_state := fun _ => {| pos := 0%nat; isize := (2, 2)%nat |}.
Definition ex_ds0 : dstates := fun _ => Unloaded.
Definition ex_orig : nat -> csize := fun _ => (2, 4)%nat.
(** a thumbnail render, then a render at the image's own pixel size *)
Definition ex_thumb_then_full : list bop :=
  [OSize 0 (1, 1)%nat; ORender 0 ex_plain; OSize 0 (2, 2)%nat; ORender 0 ex_plain].

Definition toks_of (l : list (option rendered)) : list (option (list tok)) := map (option_map r_toks) l.

(** non-vacuity: the hypotheses hold of the concrete start, and under the code's policy the
    sequence hands out the thumbnail of the full decode and then the image pixel-for-pixel,
    for a caller's object and for a file source alike; the caller's object is intact *)
Example ex_full_policy_sequence :
  callers_intact (fun _ => true) ex_ds0
  /\ toks_of (srcs_run comp_exact eimg ex_dec ex_resample (fun _ => true) full_policy (ex_bs0, ex_ds0) ex_thumb_then_full)
     = [None; Some (render_of comp_exact (ex_resample EFull (1, 1)%nat) ex_plain);
        None; Some (render_of comp_exact (ex_resample EFull (2, 2)%nat) ex_plain)]
  /\ toks_of (srcs_run comp_exact eimg ex_dec ex_resample (fun _ => false) full_policy (ex_bs0, ex_ds0) ex_thumb_then_full)
     = toks_of (srcs_run comp_exact eimg ex_dec ex_resample (fun _ => true) full_policy (ex_bs0, ex_ds0) ex_thumb_then_full)
  /\ snd (srcs_final comp_exact eimg ex_dec ex_resample (fun _ => true) full_policy (ex_bs0, ex_ds0) ex_thumb_then_full) 0%nat
     = Loaded 1
  /\ render_of comp_exact (ex_resample EFull (1, 1)%nat) ex_plain <> render_of comp_exact (ex_resample EFull (2, 2)%nat) ex_plain.
Proof.
  split; [intros i _; reflexivity|]. vm_compute. repeat split; try reflexivity. discriminate.
Qed.

(** the draft variant picks the scales [Image.draft] picks *)
Example ex_draft_scales :
  map (draft_scale (64, 48)%nat) [(64, 48); (33, 24); (32, 24); (16, 12); (8, 6); (1, 1); (8, 48); (80, 60)]%nat
  = [1; 1; 2; 4; 8; 8; 1; 1]%nat.
Proof. vm_compute. reflexivity. Qed.

Lemma draft_scale_same w h : (0 < w)%nat -> (0 < h)%nat -> draft_scale (w, h) (w, h) = 1%nat.
Proof.
  intros Hw Hh. unfold draft_scale. cbn [fst snd].
  rewrite !Nat.max_r by lia. rewrite !Nat.div_same by lia. reflexivity.
Qed.

(** *** REFUTED, the decoder-state variant on an object that lives through the sequence (a
    PIL image handed in by the caller): the thumbnail render configures the decoder and loads
    the object at half scale; the later render at the image's own pixel size is the render of
    that leftover blown up -- not the render of its own request (not a single pixel of the
    image is shown), although a 1:1 render on its own never configures anything
    ([draft_scale_same]); and the caller's image has become the half-scale decode *)
Example draft_thumbnail_then_full_refuted :
  let out := srcs_run comp_exact eimg ex_dec ex_resample (fun _ => true) (draft_policy ex_orig) (ex_bs0, ex_ds0) ex_thumb_then_full in
  let want := bs_run comp_exact (full_src eimg ex_dec ex_resample) ex_bs0 ex_thumb_then_full in
  nth_error (toks_of out) 3 = Some (Some (render_of comp_exact (ex_resample EHalf (2, 2)%nat) ex_plain))
  /\ nth_error (toks_of want) 3 = Some (Some (render_of comp_exact (ex_resample EFull (2, 2)%nat) ex_plain))
  /\ nth_error (toks_of out) 3 <> nth_error (toks_of want) 3
  /\ (* the same request served first: right *)
     toks_of (srcs_run comp_exact eimg ex_dec ex_resample (fun _ => true) (draft_policy ex_orig) (ex_bs0, ex_ds0) [ORender 0 ex_plain])
     = toks_of (bs_run comp_exact (full_src eimg ex_dec ex_resample) ex_bs0 [ORender 0 ex_plain])
  /\ (* the caller's image afterwards *)
     caller_view eimg ex_dec
       (snd (srcs_final comp_exact eimg ex_dec ex_resample (fun _ => true) (draft_policy ex_orig) (ex_bs0, ex_ds0) ex_thumb_then_full)) 0 0
     = EHalf
  /\ intact (snd (srcs_final comp_exact eimg ex_dec ex_resample (fun _ => true) (draft_policy ex_orig) (ex_bs0, ex_ds0) ex_thumb_then_full) 0%nat)
     = false.
Proof. vm_compute. repeat split; try reflexivity. discriminate. Qed.

(** *** REFUTED, the same variant on a source opened afresh for every render (a file): no
    state survives, the render at the pixel size is right -- but the thumbnail shows the
    decoder's reduced-scale pixels, not the image (its full decode) at render resolution *)
Example draft_file_thumbnail_refuted :
  let out := srcs_run comp_exact eimg ex_dec ex_resample (fun _ => false) (draft_policy ex_orig) (ex_bs0, ex_ds0) ex_thumb_then_full in
  let want := bs_run comp_exact (full_src eimg ex_dec ex_resample) ex_bs0 ex_thumb_then_full in
  nth_error (toks_of out) 1 = Some (Some (render_of comp_exact (ex_resample EHalf (1, 1)%nat) ex_plain))
  /\ nth_error (toks_of out) 1 <> nth_error (toks_of want) 1
  /\ nth_error (toks_of out) 3 = nth_error (toks_of want) 3.
Proof. vm_compute. repeat split; try reflexivity. discriminate. Qed.
