(** * BlockSeqProofs — C02 over SEQUENCES of renders in one process: for every sequence of
    requests over any number of image instances, the i-th block render handed out is the
    render of the i-th request alone (the frame selected by the last seek / iterator position
    of ITS instance, the last size set on ITS instance, ITS settings), and therefore shows
    exactly that frame's source pixels as the property demands. *)
From Coq Require Import List ZArith Bool Arith Lia.
Import ListNotations.
From TI Require Import lib.Term lib.TermFacts model.Block model.RenderData model.BlockSeq
     lib.Rect proofs.BlockProofs proofs.BlockRect proofs.RenderDataProofs.
Open Scope Z_scope.

Section P.
Variable comp : Z -> Z -> Z -> Z.
Variable src : nat -> nat -> csize -> frame.

Notation step := (bs_step comp src).
Notation run := (bs_run comp src).
Notation final := (bs_final comp src).

(** *** the state after a history is a function of the history: the invariant *)
Lemma step_pos st o i :
  pos (fst (step st o) i) = sel_pos i (pos (st i)) [o].
Proof.
  destruct o as [j n|j sz|j s|j n s|]; cbn [bs_step fst sel_pos fold_left]; try reflexivity;
    unfold bs_upd; rewrite (Nat.eqb_sym i j); destruct (Nat.eqb j i) eqn:E; try reflexivity;
    apply Nat.eqb_eq in E; subst; reflexivity.
Qed.

Lemma step_size st o i :
  isize (fst (step st o) i) = sel_size i (isize (st i)) [o].
Proof.
  destruct o as [j n|j sz|j s|j n s|]; cbn [bs_step fst sel_size fold_left]; try reflexivity;
    unfold bs_upd; rewrite (Nat.eqb_sym i j); destruct (Nat.eqb j i) eqn:E; try reflexivity;
    apply Nat.eqb_eq in E; subst; reflexivity.
Qed.

Lemma final_pos ops : forall st i, pos (final st ops i) = sel_pos i (pos (st i)) ops.
Proof.
  induction ops as [|o ops IH]; intros st i; [reflexivity|].
  cbn [bs_final]. rewrite IH, step_pos. reflexivity.
Qed.

Lemma final_size ops : forall st i, isize (final st ops i) = sel_size i (isize (st i)) ops.
Proof.
  induction ops as [|o ops IH]; intros st i; [reflexivity|].
  cbn [bs_final]. rewrite IH, step_size. reflexivity.
Qed.

Lemma run_length ops : forall st, length (run st ops) = length ops.
Proof.
  induction ops as [|o ops IH]; intros st; [reflexivity|].
  cbn [bs_run]. destruct (step st o) as [st' out]. cbn. now rewrite IH.
Qed.

Lemma run_app a : forall st b, run st (a ++ b) = run st a ++ run (final st a) b.
Proof.
  induction a as [|o a IH]; intros st b; [reflexivity|].
  cbn [app bs_run bs_final]. destruct (step st o) as [st' out] eqn:E. cbn [fst].
  rewrite IH. reflexivity.
Qed.

(** the output of the request served after history [pre] *)
Lemma run_nth st pre o post :
  nth_error (run st (pre ++ o :: post)) (length pre) = Some (snd (step (final st pre) o)).
Proof.
  rewrite run_app, nth_error_app2 by (rewrite run_length; lia).
  rewrite run_length, Nat.sub_diag. cbn [bs_run].
  destruct (step (final st pre) o) as [st' out]. reflexivity.
Qed.

(** *** THE sequence statement.  Whatever was requested before (renders of this or other
    instances with any settings, seeks, resizes, other things) and whatever follows, a render
    request hands out exactly the render of the frame its own instance has selected, at the
    size set on its own instance, under its own settings. *)
Theorem seq_output st0 pre i s post :
  nth_error (run st0 (pre ++ ORender i s :: post)) (length pre)
  = Some (Some {| r_inst := i;
                  r_frame := sel_pos i (pos (st0 i)) pre;
                  r_size := sel_size i (isize (st0 i)) pre;
                  r_toks := render_of comp (src i (sel_pos i (pos (st0 i)) pre)
                                                   (sel_size i (isize (st0 i)) pre)) s |}).
Proof.
  rewrite run_nth. cbn [bs_step snd]. rewrite final_pos, final_size. reflexivity.
Qed.

(** a frame yielded by the image iterator is the render of the frame the iterator asked for *)
Theorem seq_output_iter st0 pre i n s post :
  nth_error (run st0 (pre ++ OIterFrame i n s :: post)) (length pre)
  = Some (Some {| r_inst := i; r_frame := n;
                  r_size := sel_size i (isize (st0 i)) pre;
                  r_toks := render_of comp (src i n (sel_size i (isize (st0 i)) pre)) s |}).
Proof.
  rewrite run_nth. cbn [bs_step snd]. rewrite final_size. reflexivity.
Qed.

(** ... and the iterator's position is the instance's position afterwards *)
Lemma sel_pos_app i p0 a b : sel_pos i p0 (a ++ b) = sel_pos i (sel_pos i p0 a) b.
Proof. unfold sel_pos. apply fold_left_app. Qed.

Lemma sel_size_app i z0 a b : sel_size i z0 (a ++ b) = sel_size i (sel_size i z0 a) b.
Proof. unfold sel_size. apply fold_left_app. Qed.

(** what concerns instance [i] in a history *)
Definition concerns (i : nat) (o : bop) : bool :=
  match o with
  | OSeek j _ | OSize j _ | ORender j _ | OIterFrame j _ _ => Nat.eqb j i
  | OOther => false
  end.

(** requests about OTHER instances (and anything else that happened) are irrelevant to the
    selection of instance [i] *)
Lemma sel_pos_others i hist : forall p0, sel_pos i p0 hist = sel_pos i p0 (filter (concerns i) hist).
Proof.
  induction hist as [|o hist IH]; intros p0; [reflexivity|].
  change (o :: hist) with ([o] ++ hist). rewrite sel_pos_app, IH.
  destruct o as [j n|j sz|j s|j n s|]; cbn [filter concerns app];
    try (destruct (Nat.eqb j i) eqn:E); cbn [app];
    try (change (?x :: filter ?f hist) with ([x] ++ filter f hist); rewrite (sel_pos_app i p0 [_]));
    cbn [sel_pos fold_left]; rewrite ?E; reflexivity.
Qed.

Lemma sel_size_others i hist : forall z0, sel_size i z0 hist = sel_size i z0 (filter (concerns i) hist).
Proof.
  induction hist as [|o hist IH]; intros z0; [reflexivity|].
  change (o :: hist) with ([o] ++ hist). rewrite sel_size_app, IH.
  destruct o as [j n|j sz|j s|j n s|]; cbn [filter concerns app];
    try (destruct (Nat.eqb j i) eqn:E); cbn [app];
    try (change (?x :: filter ?f hist) with ([x] ++ filter f hist); rewrite (sel_size_app i z0 [_]));
    cbn [sel_size fold_left]; rewrite ?E; reflexivity.
Qed.

(** renders do not change any selection: a render is a read *)
Lemma sel_pos_render i j s p0 : sel_pos i p0 [ORender j s] = p0.
Proof. reflexivity. Qed.

(** two requests, anywhere in any two sequences, about the same frame at the same size
    with the same settings hand out the same render *)
Theorem seq_equal_requests st0 pre i s post st0' pre' post' :
  sel_pos i (pos (st0 i)) pre = sel_pos i (pos (st0' i)) pre' ->
  sel_size i (isize (st0 i)) pre = sel_size i (isize (st0' i)) pre' ->
  nth_error (run st0 (pre ++ ORender i s :: post)) (length pre)
  = nth_error (run st0' (pre' ++ ORender i s :: post')) (length pre').
Proof. intros Hp Hs. rewrite !seq_output, Hp, Hs. reflexivity. Qed.

(** the history of OTHER instances is irrelevant to a request *)
Theorem seq_independent_of_other_instances st0 pre i s post :
  nth_error (run st0 (pre ++ ORender i s :: post)) (length pre)
  = nth_error (run st0 (filter (concerns i) pre ++ [ORender i s])) (length (filter (concerns i) pre)).
Proof.
  rewrite !seq_output, <- sel_pos_others, <- sel_size_others. reflexivity.
Qed.

(** *** lifting the exact-pixel theorems to every element of every sequence *)

Lemma frame_px_rows f s w :
  (forall r, In r (f_rows f) -> length r = w) ->
  forall r, In r (frame_px comp f s) -> length r = w.
Proof.
  intros H r Hin. unfold frame_px in Hin. apply in_map_iff in Hin as (r0 & <- & Hin).
  rewrite map_length. now apply H.
Qed.

(** the cell at line [a], column [b] of ANY request's output shows [Block.expect] of the
    render data of the source pixel pair [(a, b)] of the frame selected for that request *)
Theorem seq_pixels_exact st0 pre i s post (lm : Z) (w : nat) (t : term) (a b : nat) :
  let f := src i (sel_pos i (pos (st0 i)) pre) (sel_size i (isize (st0 i)) pre) in
  parser t = Ground -> col t = lm -> (0 < w)%nat ->
  (forall r, In r (f_rows f) -> length r = w) ->
  (a < length (f_rows f))%nat -> (b < w)%nat ->
  exists out line ul,
    nth_error (run st0 (pre ++ ORender i s :: post)) (length pre) = Some (Some out) /\
    nth_error (f_rows f) a = Some line /\ nth_error line b = Some ul /\
    visual (view (log (exec lm t (r_toks out))) (row t + Z.of_nat a) (lm + Z.of_nat b))
    = Some (Block.expect (alpha_mode (f_has_alpha f) (st_alpha s)) (st_kitty s) (st_termbg s)
                         (render_pair comp (f_has_alpha f) (st_alpha s) (st_termbg s) (fst ul) (snd ul))).
Proof.
  intros f Hp Hc Hw Hrows Ha Hb.
  eexists. rewrite seq_output. fold f. cbn [r_toks]. unfold render_of.
  destruct (block_pixels_exact (alpha_mode (f_has_alpha f) (st_alpha s)) (st_kitty s) (st_termbg s)
              (st_split s) lm w (frame_px comp f s) t a b Hp Hc Hw
              (frame_px_rows f s w Hrows)) as (pxs & p & H1 & H2 & H3);
    [unfold frame_px; rewrite map_length; exact Ha | exact Hb |].
  unfold frame_px in H1. rewrite nth_error_map in H1.
  destruct (nth_error (f_rows f) a) as [line|] eqn:El; [|discriminate].
  cbn in H1. injection H1 as <-. rewrite nth_error_map in H2.
  destruct (nth_error line b) as [ul|] eqn:Eu; [|discriminate].
  cbn in H2. injection H2 as <-.
  exists line, ul. repeat split; try reflexivity; assumption.
Qed.

(** ... hence, without the kitty work-around, exactly what the property demands of the two
    SOURCE pixels of the selected frame under the request's own settings: alpha ignored when
    transparency is disabled; composited over the REQUESTED background colour; below the
    threshold the terminal's own background, above it opaque *)
Theorem seq_source_pixels_exact st0 pre i s post (lm : Z) (w : nat) (t : term) (a b : nat) :
  let f := src i (sel_pos i (pos (st0 i)) pre) (sel_size i (isize (st0 i)) pre) in
  st_kitty s = false ->
  parser t = Ground -> col t = lm -> (0 < w)%nat ->
  (forall r, In r (f_rows f) -> length r = w) ->
  (a < length (f_rows f))%nat -> (b < w)%nat ->
  exists out line ul,
    nth_error (run st0 (pre ++ ORender i s :: post)) (length pre) = Some (Some out) /\
    nth_error (f_rows f) a = Some line /\ nth_error line b = Some ul /\
    visual (view (log (exec lm t (r_toks out))) (row t + Z.of_nat a) (lm + Z.of_nat b))
    = Some (col_of (fst (shown_pair comp f s ul)), col_of (snd (shown_pair comp f s ul))).
Proof.
  intros f Hk Hp Hc Hw Hrows Ha Hb.
  destruct (seq_pixels_exact st0 pre i s post lm w t a b Hp Hc Hw Hrows Ha Hb)
    as (out & line & ul & H1 & H2 & H3 & H4).
  exists out, line, ul. repeat split; try assumption.
  fold f in H4. rewrite H4, Hk, source_pair_exact. reflexivity.
Qed.

(** the same for a frame yielded by the image iterator *)
Theorem seq_source_pixels_exact_iter st0 pre i n s post (lm : Z) (w : nat) (t : term) (a b : nat) :
  let f := src i n (sel_size i (isize (st0 i)) pre) in
  st_kitty s = false ->
  parser t = Ground -> col t = lm -> (0 < w)%nat ->
  (forall r, In r (f_rows f) -> length r = w) ->
  (a < length (f_rows f))%nat -> (b < w)%nat ->
  exists out line ul,
    nth_error (run st0 (pre ++ OIterFrame i n s :: post)) (length pre) = Some (Some out) /\
    nth_error (f_rows f) a = Some line /\ nth_error line b = Some ul /\
    visual (view (log (exec lm t (r_toks out))) (row t + Z.of_nat a) (lm + Z.of_nat b))
    = Some (col_of (fst (shown_pair comp f s ul)), col_of (snd (shown_pair comp f s ul))).
Proof.
  intros f Hk Hp Hc Hw Hrows Ha Hb.
  eexists. rewrite seq_output_iter. fold f. cbn [r_toks]. unfold render_of.
  destruct (block_pixels_exact (alpha_mode (f_has_alpha f) (st_alpha s)) (st_kitty s) (st_termbg s)
              (st_split s) lm w (frame_px comp f s) t a b Hp Hc Hw
              (frame_px_rows f s w Hrows)) as (pxs & p & H1 & H2 & H3);
    [unfold frame_px; rewrite map_length; exact Ha | exact Hb |].
  unfold frame_px in H1. rewrite nth_error_map in H1.
  destruct (nth_error (f_rows f) a) as [line|] eqn:El; [|discriminate].
  cbn in H1. injection H1 as <-. rewrite nth_error_map in H2.
  destruct (nth_error line b) as [ul|] eqn:Eu; [|discriminate].
  cbn in H2. injection H2 as <-.
  exists line, ul. do 3 (split; [first [reflexivity | assumption]|]).
  cbn [r_toks]. unfold render_of. fold f. rewrite H3, Hk, source_pair_exact. reflexivity.
Qed.

End P.

(** the statements as exported by [props/C02.v] (conjunctions) *)
Lemma seq_outputs :
  (forall comp src st0 pre i s post,
    nth_error (bs_run comp src st0 (pre ++ ORender i s :: post)) (length pre)
    = Some (Some {| r_inst := i;
                    r_frame := sel_pos i (pos (st0 i)) pre;
                    r_size := sel_size i (isize (st0 i)) pre;
                    r_toks := render_of comp (src i (sel_pos i (pos (st0 i)) pre)
                                                     (sel_size i (isize (st0 i)) pre)) s |}))
  /\
  (forall comp src st0 pre i n s post,
    nth_error (bs_run comp src st0 (pre ++ OIterFrame i n s :: post)) (length pre)
    = Some (Some {| r_inst := i; r_frame := n;
                    r_size := sel_size i (isize (st0 i)) pre;
                    r_toks := render_of comp (src i n (sel_size i (isize (st0 i)) pre)) s |})).
Proof. split; [exact seq_output | exact seq_output_iter]. Qed.

Lemma seq_pixels :
  (forall comp src st0 pre i s post (lm : Z) (w : nat) (t : term) (a b : nat),
    let f := src i (sel_pos i (pos (st0 i)) pre) (sel_size i (isize (st0 i)) pre) in
    st_kitty s = false ->
    parser t = Ground -> col t = lm -> (0 < w)%nat ->
    (forall r, In r (f_rows f) -> length r = w) ->
    (a < length (f_rows f))%nat -> (b < w)%nat ->
    exists out line ul,
      nth_error (bs_run comp src st0 (pre ++ ORender i s :: post)) (length pre) = Some (Some out) /\
      nth_error (f_rows f) a = Some line /\ nth_error line b = Some ul /\
      visual (view (log (exec lm t (r_toks out))) (row t + Z.of_nat a) (lm + Z.of_nat b))
      = Some (col_of (fst (shown_pair comp f s ul)), col_of (snd (shown_pair comp f s ul))))
  /\
  (forall comp src st0 pre i n s post (lm : Z) (w : nat) (t : term) (a b : nat),
    let f := src i n (sel_size i (isize (st0 i)) pre) in
    st_kitty s = false ->
    parser t = Ground -> col t = lm -> (0 < w)%nat ->
    (forall r, In r (f_rows f) -> length r = w) ->
    (a < length (f_rows f))%nat -> (b < w)%nat ->
    exists out line ul,
      nth_error (bs_run comp src st0 (pre ++ OIterFrame i n s :: post)) (length pre) = Some (Some out) /\
      nth_error (f_rows f) a = Some line /\ nth_error line b = Some ul /\
      visual (view (log (exec lm t (r_toks out))) (row t + Z.of_nat a) (lm + Z.of_nat b))
      = Some (col_of (fst (shown_pair comp f s ul)), col_of (snd (shown_pair comp f s ul))))
  /\
  (forall comp src st0 pre i s post (lm : Z) (w : nat) (t : term) (a b : nat),
    let f := src i (sel_pos i (pos (st0 i)) pre) (sel_size i (isize (st0 i)) pre) in
    parser t = Ground -> col t = lm -> (0 < w)%nat ->
    (forall r, In r (f_rows f) -> length r = w) ->
    (a < length (f_rows f))%nat -> (b < w)%nat ->
    exists out line ul,
      nth_error (bs_run comp src st0 (pre ++ ORender i s :: post)) (length pre) = Some (Some out) /\
      nth_error (f_rows f) a = Some line /\ nth_error line b = Some ul /\
      visual (view (log (exec lm t (r_toks out))) (row t + Z.of_nat a) (lm + Z.of_nat b))
      = Some (Block.expect (alpha_mode (f_has_alpha f) (st_alpha s)) (st_kitty s) (st_termbg s)
                           (render_pair comp (f_has_alpha f) (st_alpha s) (st_termbg s) (fst ul) (snd ul)))).
Proof.
  split; [exact seq_source_pixels_exact|]. split; [exact seq_source_pixels_exact_iter | exact seq_pixels_exact].
Qed.

Lemma seq_requests_independent :
  (forall comp src st0 pre i s post st0' pre' post',
    sel_pos i (pos (st0 i)) pre = sel_pos i (pos (st0' i)) pre' ->
    sel_size i (isize (st0 i)) pre = sel_size i (isize (st0' i)) pre' ->
    nth_error (bs_run comp src st0 (pre ++ ORender i s :: post)) (length pre)
    = nth_error (bs_run comp src st0' (pre' ++ ORender i s :: post')) (length pre'))
  /\
  (forall comp src st0 pre i s post,
    nth_error (bs_run comp src st0 (pre ++ ORender i s :: post)) (length pre)
    = nth_error (bs_run comp src st0 (filter (concerns i) pre ++ [ORender i s])) (length (filter (concerns i) pre))).
Proof. split; [exact seq_equal_requests | exact seq_independent_of_other_instances]. Qed.

(** *** non-vacuity: two instances; instance 0 has an opaque (RGB) frame 0 and a frame 1 with
    an alpha channel (a two-page TIFF), instance 1 a single RGBA frame; the same background
    colour is requested three times at the same size; the third render follows a seek *)
Definition ex_opaque : spx := {| s_rgb := (0, 200, 0); s_a := 255 |}.
Definition ex_clear : spx := {| s_rgb := (90, 90, 90); s_a := 0 |}.
Definition ex_half : spx := {| s_rgb := (0, 0, 250); s_a := 128 |}.
Definition ex_src (i n : nat) (sz : csize) : frame :=
  match i, n with
  | O, O => {| f_has_alpha := false; f_rows := [[(ex_opaque, ex_clear); (ex_opaque, ex_opaque)]] |}
  | O, _ => {| f_has_alpha := true; f_rows := [[(ex_clear, ex_half); (ex_opaque, ex_clear)]] |}
  | _, _ => {| f_has_alpha := true; f_rows := [[(ex_half, ex_half); (ex_clear, ex_opaque)]] |}
  end.
Definition ex_red : settings :=
  {| st_alpha := ABg (Some (255, 0, 0)); st_termbg := Some (12, 34, 56); st_kitty := false; st_split := false |}.
Definition ex_thr : settings :=
  {| st_alpha := AThreshold 40; st_termbg := Some (12, 34, 56); st_kitty := false; st_split := false |}.
Definition ex_st0 : bs_state := fun _ => {| pos := 0%nat; isize := (2, 1)%nat |}.
Definition ex_ops : list bop :=
  [ORender 0 ex_red; ORender 1 ex_red; OSeek 0 1; OOther; ORender 0 ex_red; ORender 0 ex_thr;
   OIterFrame 0 0 ex_thr; ORender 0 ex_red].

Example ex_sequence :
  map (option_map r_toks) (bs_run comp_exact ex_src ex_st0 ex_ops)
  = [ Some (render_of comp_exact (ex_src 0 0 (2, 1)%nat) ex_red);
      Some (render_of comp_exact (ex_src 1 0 (2, 1)%nat) ex_red);
      None; None;
      Some (render_of comp_exact (ex_src 0 1 (2, 1)%nat) ex_red);
      Some (render_of comp_exact (ex_src 0 1 (2, 1)%nat) ex_thr);
      Some (render_of comp_exact (ex_src 0 0 (2, 1)%nat) ex_thr);
      Some (render_of comp_exact (ex_src 0 0 (2, 1)%nat) ex_red) ]
  /\ (* the frame with alpha, over red: the clear pixel shows red, the half-transparent blue
        pixel the exact blend, whatever was rendered over red before *)
  frame_px comp_exact (ex_src 0 1 (2, 1)%nat) ex_red
  = [[ {| p1 := (255, 0, 0); p2 := (127, 0, 125); a1 := 255; a2 := 255 |};
       {| p1 := (0, 200, 0); p2 := (255, 0, 0); a1 := 255; a2 := 255 |} ]]
  /\ (* the first and the last request are equal requests: equal renders *)
  nth_error (bs_run comp_exact ex_src ex_st0 ex_ops) 0 <> None
  /\ option_map (option_map r_toks) (nth_error (bs_run comp_exact ex_src ex_st0 ex_ops) 0)
     = option_map (option_map r_toks) (nth_error (bs_run comp_exact ex_src ex_st0 ex_ops) 7).
Proof. vm_compute. repeat split; try reflexivity. discriminate. Qed.

(** *** the statement is not vacuous in the other direction either: a renderer that KEEPS
    the background canvas between renders (keyed by the colour) and composites onto it in
    place -- not the code -- violates it on the second render over the same colour: a fully
    transparent pixel shows what the previous render left there, not the requested colour *)
Example cached_canvas_refuted :
  let red := (255, 0, 0) in
  let r1 := cached_render_pair comp_exact [] red ex_opaque ex_opaque in
  let r2 := cached_render_pair comp_exact (snd r1) red ex_clear ex_half in
  fst r1 = (fst (render_px comp_exact true (ABg (Some red)) None ex_opaque),
            fst (render_px comp_exact true (ABg (Some red)) None ex_opaque))
  /\ fst r2 = ((0, 200, 0), (0, 100, 125))
  /\ (fst (render_px comp_exact true (ABg (Some red)) None ex_clear),
      fst (render_px comp_exact true (ABg (Some red)) None ex_half)) = ((255, 0, 0), (127, 0, 125))
  /\ fst r2 <> (fst (render_px comp_exact true (ABg (Some red)) None ex_clear),
                fst (render_px comp_exact true (ABg (Some red)) None ex_half)).
Proof. vm_compute. repeat split; try reflexivity. discriminate. Qed.
