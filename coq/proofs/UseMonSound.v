(** The in-language monitor [UseMon.instr] simulates the ghost semantics [UseMon.evalU]:
    every [evalU] run of a skeleton that does not mention the two ghost booleans is matched
    by an [Eff.eval] run of the instrumented skeleton from a related state, with the same
    outcome, ending in a related state - where "related" means: same obligations, same
    tracked booleans except the ghosts, [gl] set only if the data is unfinalized, [gb] set
    if the ghost "a bad use has happened" is set.  Hence a post-condition [gb = false]
    established by [Eff.analyze] on [monitored p] holds of the ghost of every run of [p]
    ([monitored_sound]).  Lemmas only. *)
From Coq Require Import List Bool Arith Lia.
Import ListNotations.
From TI Require Import lib.Eff lib.EffSound model.UseMon.

(** * [get] / [upd] *)

Lemma get_upd_same : forall x v l, get x (upd x v l) = v.
Proof.
  unfold get. induction x as [|x IH]; intros v l; destruct l as [|h t]; simpl; auto.
Qed.

Lemma get_nil : forall y, get y [] = false.
Proof. unfold get. destruct y; reflexivity. Qed.

Lemma get_upd_other : forall x y v l, x <> y -> get y (upd x v l) = get y l.
Proof.
  unfold get. induction x as [|x IH]; intros y v l Hxy; destruct l as [|h t]; destruct y as [|y]; simpl;
    try congruence; auto.
  - destruct y; reflexivity.
  - rewrite IH by congruence. destruct y; reflexivity.
Qed.

(** * [eff] / [fault] do not look at the tracked booleans *)

Lemma eff_set_vars : forall o v s, eff o (set_vars v s) = set_vars v (eff o s).
Proof. intros o v s. destruct o as [r x|x|r x|r| | | | | | |w| | | | | | | | | |i|i| ]; try destruct r; try destruct w; reflexivity. Qed.

Lemma fault_set_vars : forall o k v s, fault o k (set_vars v s) = set_vars v (fault o k s).
Proof.
  intros o k v s. destruct k; destruct o as [r x|x|r x|r| | | | | | |w| | | | | | | | | |i|i| ]; try destruct w; simpl; try reflexivity;
    destruct (pend s); reflexivity.
Qed.

Lemma set_vars_twice : forall a b s, set_vars a (set_vars b s) = set_vars a s.
Proof. reflexivity. Qed.

Lemma fault_unfin : forall o k s, unfin (fault o k s) = unfin s.
Proof.
  intros o k s. destruct k; destruct o as [r x|x|r x|r| | | | | | |w| | | | | | | | | |i|i| ]; try destruct w; simpl; try reflexivity;
    destruct (pend s); reflexivity.
Qed.

Lemma fault_vars : forall o k s, vars (fault o k s) = vars s.
Proof.
  intros o k s. destruct k; destruct o as [r x|x|r x|r| | | | | | |w| | | | | | | | | |i|i| ]; try destruct w; simpl; try reflexivity;
    destruct (pend s); reflexivity.
Qed.

Lemma eff_vars : forall o s, vars (eff o s) = vars s.
Proof. intros o s. destruct o as [r x|x|r x|r| | | | | | |w| | | | | | | | | |i|i| ]; try destruct r; try destruct w; reflexivity. Qed.

(** only [Finalize] discharges the obligation *)
Lemma eff_unfin_keep : forall o s, o <> Finalize -> unfin s = true -> unfin (eff o s) = true.
Proof.
  intros o s Ho Hu. destruct o as [r x|x|r x|r| | | | | | |w| | | | | | | | | |i|i| ]; try destruct r; try destruct w; simpl; auto; congruence.
Qed.

Section Sim.
Variable C : cfg.
Variables gl gb : nat.
Hypothesis gl_gb : gl <> gb.

(** related states *)
Definition rel (u : ust) (t : st) : Prop :=
  exists vt, t = set_vars vt (fst u)
    /\ (forall x, x <> gl -> x <> gb -> get x vt = get x (vars (fst u)))
    /\ (get gl vt = true -> unfin (fst u) = true)
    /\ (snd u = true -> get gb vt = true).

(** after the [pre_op] of [o]: additionally, [gl] is clear if [o] is [Finalize], and the
    ghost has been marked *)
Definition rel_pre (o : op) (u : ust) (t : st) : Prop :=
  exists vt, t = set_vars vt (fst u)
    /\ (forall x, x <> gl -> x <> gb -> get x vt = get x (vars (fst u)))
    /\ (get gl vt = true -> unfin (fst u) = true /\ o <> Finalize)
    /\ (snd (mark o u) = true -> get gb vt = true).

Lemma pre_sim : forall c o u t, rel u t ->
  exists t1, eval C c (pre_op gl gb o) t ONorm t1 /\ rel_pre o u t1.
Proof.
  intros c o [s b] t (vt & Ht & Hx & Hl & Hb). simpl in *. subst t.
  assert (Plain : is_use o = false -> o <> Finalize ->
                  exists t1, eval C c Skip (set_vars vt s) ONorm t1 /\ rel_pre o (s, b) t1).
  { intros Hu Hf. eexists; split; [constructor|]. exists vt. simpl.
    split; [reflexivity|]. split; [exact Hx|]. split.
    - intros G. split; [apply Hl; exact G|exact Hf].
    - rewrite Hu. simpl. rewrite orb_false_r. exact Hb. }
  assert (Use : is_use o = true -> o <> Finalize ->
                exists t1, eval C c (guard gl gb) (set_vars vt s) ONorm t1 /\ rel_pre o (s, b) t1).
  { intros Hu Hf. unfold guard. destruct (get gl vt) eqn:G.
    - eexists; split; [apply E_IfT; [exact G|constructor]|]. exists vt. simpl.
      split; [reflexivity|]. split; [exact Hx|]. split.
      + intros _. split; [apply Hl; reflexivity|exact Hf].
      + rewrite Hu, (Hl eq_refl). simpl. rewrite orb_false_r. exact Hb.
    - eexists; split; [apply E_IfF; [exact G|constructor]|]. exists (upd gb true vt). simpl.
      split; [reflexivity|]. split; [|split].
      + intros x Hg1 Hg2. rewrite get_upd_other by congruence. apply Hx; assumption.
      + intros G'. rewrite get_upd_other in G' by congruence. congruence.
      + intros _. apply get_upd_same. }
  destruct o as [r x|x|r x|r| | | | | | |w| | | | | | | | | |i|i| ]; simpl pre_op;
    try (apply Plain; [reflexivity|discriminate]); try (apply Use; [reflexivity|discriminate]).
  (* Finalize *)
  eexists; split; [constructor|]. exists (upd gl false vt). simpl.
  split; [reflexivity|]. split; [|split].
  - intros x Hg1 Hg2. rewrite get_upd_other by congruence. apply Hx; assumption.
  - intros G. rewrite get_upd_same in G. discriminate.
  - rewrite orb_false_r. intros Hb'. rewrite get_upd_other by congruence. auto.
Qed.

(** the call itself, completed, from a [rel_pre] state *)
Lemma op_rel : forall o u t, rel_pre o u t ->
  exists vt, eff o t = set_vars vt (fst (lift (eff o) (mark o u)))
    /\ (forall x, x <> gl -> x <> gb -> get x vt = get x (vars (fst u)))
    /\ (get gl vt = true -> unfin (eff o (fst u)) = true)
    /\ (snd (mark o u) = true -> get gb vt = true).
Proof.
  intros o [s b] t (vt & Ht & Hx & Hl & Hb). simpl in *. subst t. exists vt. rewrite eff_set_vars.
  repeat split; auto. intros G. destruct (Hl G) as [Hu Hf]. apply eff_unfin_keep; assumption.
Qed.

Lemma post_sim : forall c o u t,
  (exists vt, t = set_vars vt (eff o (fst u))
     /\ (forall x, x <> gl -> x <> gb -> get x vt = get x (vars (fst u)))
     /\ (get gl vt = true -> unfin (eff o (fst u)) = true)
     /\ (snd (mark o u) = true -> get gb vt = true)) ->
  exists t2, eval C c (post_op gl o) t ONorm t2 /\ rel (lift (eff o) (mark o u)) t2.
Proof.
  intros c o [s b] t (vt & Ht & Hx & Hl & Hb). simpl in *. subst t.
  assert (Plain : exists t2, eval C c Skip (set_vars vt (eff o s)) ONorm t2 /\ rel (lift (eff o) (mark o (s, b))) t2).
  { eexists; split; [constructor|]. exists vt. simpl. rewrite eff_vars. repeat split; auto. }
  destruct o as [r x|x|r x|r| | | | | | |w| | | | | | | | | |i|i| ]; simpl post_op; try exact Plain.
  (* NewData *)
  eexists; split; [constructor|]. exists (upd gl true vt). simpl. repeat split.
  - intros x Hg1 Hg2. rewrite get_upd_other by congruence. apply Hx; assumption.
  - intros Hb'. rewrite get_upd_other by congruence. apply Hb. exact Hb'.
Qed.

Lemma op_sim_norm : forall c o u t, rel u t ->
  exists t', eval C c (instr_op gl gb o) t ONorm t' /\ rel (lift (eff o) (mark o u)) t'.
Proof.
  intros c o u t HR. destruct (pre_sim c o u t HR) as (t1 & E1 & R1).
  destruct (op_rel o u t1 R1) as (vt & Ht & Hrest).
  destruct (post_sim c o u (eff o t1)) as (t2 & E2 & R2).
  { exists vt. split; [exact Ht|exact Hrest]. }
  exists t2. split; [|exact R2]. unfold instr_op.
  eapply E_SeqN; [exact E1|]. eapply E_SeqN; [apply E_Op|exact E2].
Qed.

Lemma op_sim_before : forall o k u t, rel u t -> mf C o = true -> fk C k = true ->
  exists t', eval C false (instr_op gl gb o) t (ORaise k) t' /\ rel (lift (fault o k) (mark o u)) t'.
Proof.
  intros o k [s b] t HR Hm Hk. destruct (pre_sim false o (s, b) t HR) as (t1 & E1 & (vt & Ht & Hx & Hl & Hb)).
  simpl in *. subst t1. exists (fault o k (set_vars vt s)). split.
  - unfold instr_op. eapply E_SeqN; [exact E1|]. apply E_SeqA; [|reflexivity]. apply E_FaultBefore; assumption.
  - exists vt. simpl. rewrite fault_set_vars, fault_vars, fault_unfin. repeat split; auto. intros G. apply (Hl G).
Qed.

Lemma op_sim_after : forall o k u t, rel u t -> mf C o = true -> fk C k = true ->
  exists t', eval C false (instr_op gl gb o) t (ORaise k) t' /\ rel (lift (fault o k) (lift (eff o) (mark o u))) t'.
Proof.
  intros o k [s b] t HR Hm Hk. destruct (pre_sim false o (s, b) t HR) as (t1 & E1 & R1).
  destruct (op_rel o (s, b) t1 R1) as (vt & Ht & Hx & Hl & Hb). simpl in *.
  destruct R1 as (vt1 & Ht1 & _). simpl in Ht1. subst t1.
  exists (fault o k (eff o (set_vars vt1 s))). split.
  - unfold instr_op. eapply E_SeqN; [exact E1|]. apply E_SeqA; [|reflexivity]. apply E_FaultAfter; assumption.
  - exists vt. simpl. rewrite Ht. rewrite fault_set_vars, fault_vars, fault_unfin, eff_vars. repeat split; auto.
Qed.

Lemma fresh_neq : forall x, negb (Nat.eqb x gl) && negb (Nat.eqb x gb) = true -> x <> gl /\ x <> gb.
Proof.
  intros x H. apply andb_prop in H. destruct H as [H1 H2].
  apply negb_true_iff in H1. apply negb_true_iff in H2. apply Nat.eqb_neq in H1. apply Nat.eqb_neq in H2. auto.
Qed.

Theorem sim : forall c p u o u', evalU C c p u o u' -> fresh gl gb p = true ->
  forall t, rel u t -> exists t', eval C c (instr gl gb p) t o t' /\ rel u' t'.
Proof.
  intros c p u o u' H. induction H; intros Hf t HR; simpl in Hf; simpl instr;
    repeat match goal with H : _ && _ = true |- _ => apply andb_prop in H; destruct H end.
  - exists t. split; [constructor|assumption].
  - apply op_sim_norm; assumption.
  - apply op_sim_before; assumption.
  - apply op_sim_after; assumption.
  - destruct (IHevalU1 ltac:(assumption) t HR) as (t1 & E1 & R1).
    destruct (IHevalU2 ltac:(assumption) t1 R1) as (t2 & E2 & R2).
    exists t2. split; [eapply E_SeqN; eassumption|assumption].
  - destruct (IHevalU ltac:(assumption) t HR) as (t1 & E1 & R1).
    exists t1. split; [apply E_SeqA; assumption|assumption].
  - destruct (IHevalU ltac:(assumption) t HR) as (t1 & E1 & R1). exists t1. split; [apply E_ChoiceL|]; assumption.
  - destruct (IHevalU ltac:(assumption) t HR) as (t1 & E1 & R1). exists t1. split; [apply E_ChoiceR|]; assumption.
  - exists t. split; [constructor|assumption].
  - destruct (IHevalU1 Hf t HR) as (t1 & E1 & R1).
    destruct (IHevalU2 Hf t1 R1) as (t2 & E2 & R2).
    exists t2. split; [eapply E_LoopS; eassumption|assumption].
  - destruct (IHevalU Hf t HR) as (t1 & E1 & R1). exists t1. split; [apply E_LoopA|]; assumption.
  - destruct (IHevalU1 ltac:(assumption) t HR) as (t1 & E1 & R1).
    destruct (IHevalU2 ltac:(assumption) t1 R1) as (t2 & E2 & R2).
    exists t2. split; [eapply E_Finally; eassumption|assumption].
  - destruct (IHevalU ltac:(assumption) t HR) as (t1 & E1 & R1). exists t1. split; [apply E_ExceptPass|]; assumption.
  - destruct (IHevalU1 ltac:(assumption) t HR) as (t1 & E1 & R1).
    destruct (IHevalU2 ltac:(assumption) t1 R1) as (t2 & E2 & R2).
    exists t2. split; [eapply E_ExceptKI; eassumption|assumption].
  - destruct (IHevalU1 ltac:(assumption) t HR) as (t1 & E1 & R1).
    destruct (IHevalU2 ltac:(assumption) t1 R1) as (t2 & E2 & R2).
    exists t2. split; [eapply E_ExceptExc; eassumption|assumption].
  - destruct (IHevalU ltac:(assumption) t HR) as (t1 & E1 & R1). exists t1. split; [apply E_MissKI|]; assumption.
  - destruct (IHevalU ltac:(assumption) t HR) as (t1 & E1 & R1). exists t1. split; [apply E_MissExc|]; assumption.
  - exists t. split; [constructor|assumption].
  - exists t. split; [constructor|assumption].
  - destruct (fresh_neq x) as [N1 N2]; [rewrite andb_true_iff; split; assumption|].
    destruct (IHevalU ltac:(assumption) t HR) as (t1 & E1 & R1). exists t1. split; [|assumption].
    apply E_IfT; [|assumption]. destruct HR as (vt & Ht & Hx & _). subst t. simpl. rewrite Hx by assumption. assumption.
  - destruct (fresh_neq x) as [N1 N2]; [rewrite andb_true_iff; split; assumption|].
    destruct (IHevalU ltac:(assumption) t HR) as (t1 & E1 & R1). exists t1. split; [|assumption].
    apply E_IfF; [|assumption]. destruct HR as (vt & Ht & Hx & _). subst t. simpl. rewrite Hx by assumption. assumption.
  - destruct (fresh_neq x) as [N1 N2]; [rewrite andb_true_iff; split; assumption|].
    destruct s as [s b]. destruct HR as (vt & Ht & Hx & Hl & Hb). simpl in *. subst t.
    eexists. split; [constructor|]. exists (upd x v vt). simpl. repeat split.
    + intros y Hy1 Hy2. destruct (Nat.eq_dec x y) as [->|Hxy].
      * rewrite !get_upd_same. reflexivity.
      * rewrite !get_upd_other by assumption. apply Hx; assumption.
    + intros G. rewrite get_upd_other in G by assumption. auto.
    + intros Hb'. rewrite get_upd_other by assumption. auto.
  - destruct (IHevalU Hf t HR) as (t1 & E1 & R1). exists t1. split; [apply E_Call|]; assumption.
Qed.

(** entry into the monitored program establishes the relation *)
Lemma monitored_entry : forall c s,
  exists t, eval C c (sq [SetVar gl false; SetVar gb false]) s ONorm t /\ rel (s, false) t.
Proof.
  intros c s. eexists. split.
  - unfold sq. simpl. eapply E_SeqN; [constructor|]. eapply E_SeqN; [constructor|constructor].
  - exists (upd gb false (upd gl false (vars s))). simpl. repeat split.
    + intros x H1 H2. rewrite !get_upd_other by congruence. reflexivity.
    + intros G. rewrite get_upd_other, get_upd_same in G by congruence. discriminate.
    + discriminate.
Qed.

Theorem monitored_run : forall p s o s' b', fresh gl gb p = true ->
  evalU C false p (s, false) o (s', b') ->
  exists t', eval C false (monitored gl gb p) s o t' /\ (b' = true -> get gb (vars t') = true).
Proof.
  intros p s o s' b' Hf He. destruct (monitored_entry false s) as (t & E0 & R0).
  destruct (sim _ _ _ _ _ He Hf t R0) as (t' & E1 & (vt & Ht & _ & _ & Hb)).
  exists t'. split.
  - unfold monitored, sq in *. simpl in *.
    inversion E0; subst; try discriminate.
    match goal with H : eval _ _ (Seq (SetVar gb false) Skip) _ _ _ |- _ => inversion H; subst; try discriminate end.
    match goal with H : eval _ _ Skip _ _ _ |- _ => inversion H; subst end.
    eapply E_SeqN; [eassumption|]. eapply E_SeqN; [eassumption|].
    destruct (is_norm o) eqn:N.
    + destruct o; try discriminate. eapply E_SeqN; [exact E1|constructor].
    + apply E_SeqA; assumption.
  - subst t'. simpl in *. exact Hb.
Qed.

End Sim.

(** what [Eff.analyze] establishes on the monitored skeleton holds of the ghost of every run
    of the skeleton itself *)
Theorem monitored_sound : forall C nv p,
  fresh nv (S nv) p = true ->
  analyze C nv (monitored nv (S nv) p) (no_bad_use (S nv)) = true ->
  forall vs, length vs = nv ->
  forall o s' b', evalU C false p (init vs, false) o (s', b') -> b' = false.
Proof.
  intros C nv p Hf Ha vs Hl o s' b' He.
  destruct (monitored_run C nv (S nv) (n_Sn nv) p (init vs) o s' b' Hf He) as (t' & Et & Hb).
  pose proof (analyze_sound _ _ _ _ Ha vs Hl o t' Et) as Hp. unfold no_bad_use in Hp.
  destruct b'; [|reflexivity]. rewrite (Hb eq_refl) in Hp. discriminate.
Qed.
