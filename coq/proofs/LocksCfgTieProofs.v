(** Proofs about the comparison used by the C14 correspondence over the system with the
    library configuration ([model/LocksCfgTie.v]): every trace of the model — whatever the
    threads, the programs, the schedule of picks and configuration changes and the way the
    children get their configuration — is accepted by the judge that is applied to the
    observed traces, so [checkQ] never returns 2 alone. *)
From Coq Require Import List Arith Bool Lia.
Import ListNotations.
From TI Require Import lib.Sched model.Locks model.LocksSpec model.LockSites model.LocksCfg
  model.LocksTie model.LocksCfgTie proofs.LocksProofs proofs.LocksTieProofs proofs.LocksCfgProofs.

Lemma model_traceQ_accepted c : obs_ok (model_traceQ c) = true.
Proof.
  unfold obs_ok, model_traceQ. rewrite dec_enc_trace.
  apply (cfg_trace_accepted_lemma pol_code (qcfg_of c false) (fun _ => eq_refl) eq_refl
           (prog_of (qc_case c)) conf_default).
  apply run_macroI_reachable.
Qed.

Lemma checkQ_codes c : checkQ c = 0 \/ checkQ c = 1 \/ checkQ c = 3.
Proof.
  unfold checkQ. destruct (tr_eqb (l_obs (qc_case c)) (model_traceQ c)) eqn:E.
  - apply tr_eqb_eq in E. rewrite E, model_traceQ_accepted. auto.
  - destruct (obs_ok (l_obs (qc_case c))); auto.
Qed.

(** the encoding of schedule items reaches every item over the four configuration fields *)
Lemma dec_item_move t : t < 1000 -> dec_item t = SMove t.
Proof. intro H. unfold dec_item. apply Nat.ltb_lt in H. now rewrite H. Qed.

(** the refutation's schedule, as the harness encodes it, is a failing case of the variant
    and not of the code's policy *)
Example encoded_refutation_schedule :
  let c := {| qc_case := {| l_threads := [(1, 0, [CStart 10; CCall 0 false]); (10, 10, [CCall 0 false])];
                            l_term := 0;
                            l_sched := [1000; 1; 1; 1; 1; 1; 1; 1; 10; 10; 10];
                            l_obs := [] |};
              qc_fork := false |} in
  variant_code c = 8 /\ obs_ok (model_traceQ c) = true.
Proof. vm_compute. split; reflexivity. Qed.
