(** C12 — proofs about [query] and the composite getters of model/Query.v. *)
From Coq Require Import Ascii String List ZArith Bool Arith Lia.
Import ListNotations.
From TI Require Import model.Query model.QuerySpec proofs.QueryReadProofs proofs.QueryParseProofs.
Open Scope Z_scope.

(** ** schedules in arrival order *)

(** times do not decrease along the list and are at least [lo] *)
Fixpoint nd (lo : Z) (l : list arrival) : Prop :=
  match l with [] => True | a :: r => lo <= fst a /\ nd (fst a) r end.
Fixpoint nondecr (lo : Z) (s : schedule) : Prop :=
  match s with [] => True | u :: r => lo <= fst u /\ nondecr (fst u) r end.

Lemma nd_mono l : forall lo lo', lo' <= lo -> nd lo l -> nd lo' l.
Proof. destruct l; cbn; auto. intros lo lo' H [H1 H2]. split; [lia|auto]. Qed.

Lemma nd_units t u : forall rest lo, lo <= t -> nd t rest -> nd lo (map (pair t) u ++ rest).
Proof.
  induction u as [|b u IH]; intros rest lo Hlo Hr; cbn.
  - eapply nd_mono; eauto.
  - split; [exact Hlo|]. apply IH; [lia|exact Hr].
Qed.

Lemma nd_flatten s : forall lo, nondecr lo s -> nd lo (flatten s).
Proof.
  induction s as [|[t u] s IH]; intros lo H; cbn; [exact I|].
  cbn in H. destruct H as [H1 H2]. apply nd_units; auto.
Qed.

Lemma nondecr_shift d s : forall lo, nondecr lo s -> nondecr (lo + d) (shift d s).
Proof.
  induction s as [|[t u] s IH]; intros lo H; cbn; [exact I|].
  cbn in H. destruct H as [H1 H2]. split; [lia|]. now apply IH.
Qed.

Lemma insert_last a : forall l, Forall (fun x => fst x <= fst a) l -> insert a l = l ++ [a].
Proof.
  induction l as [|x l IH]; intros H; cbn; [reflexivity|].
  inversion H; subst. replace (fst x <=? fst a) with true by (symmetry; now apply Z.leb_le).
  now rewrite IH.
Qed.

Lemma merge_sorted new : forall acc lo,
  Forall (fun x => fst x <= lo) acc -> nd lo new -> merge acc new = acc ++ new.
Proof.
  unfold merge. induction new as [|a new IH]; intros acc lo Ha Hn; cbn [fold_left].
  - now rewrite app_nil_r.
  - cbn in Hn. destruct Hn as [H1 H2].
    rewrite insert_last by (eapply Forall_impl; [|exact Ha]; cbn; intros; lia).
    rewrite (IH (acc ++ [a]) (fst a)); auto.
    + now rewrite <- app_assoc.
    + apply Forall_app; split; [eapply Forall_impl; [|exact Ha]; cbn; intros; lia|].
      constructor; [lia|constructor].
Qed.

Definition stream (s : schedule) : list byte := concat (map snd s).

Lemma flatten_bytes s : map snd (flatten s) = stream s.
Proof.
  unfold stream. induction s as [|[t u] s IH]; cbn; [reflexivity|].
  fold (flatten s). rewrite map_app, IH. f_equal. rewrite map_map. cbn. apply map_id.
Qed.

Lemma flatten_app a b : flatten (a ++ b) = flatten a ++ flatten b.
Proof. unfold flatten. apply flat_map_app. Qed.

Lemma shift_app d a b : shift d (a ++ b) = shift d a ++ shift d b.
Proof. unfold shift. apply map_app. Qed.

Lemma stream_shift d s : stream (shift d s) = stream s.
Proof. unfold stream, shift. rewrite map_map. reflexivity. Qed.

Lemma flatten_length s : length (flatten s) = length (stream s).
Proof. now rewrite <- flatten_bytes, map_length. Qed.

Lemma flatten_le s B : Forall (fun u => fst u <= B) s -> Forall (fun a => fst a <= B) (flatten s).
Proof.
  induction 1 as [|[t u] s Hu _ IH]; cbn; [constructor|].
  apply Forall_app; split; auto. apply Forall_forall. intros x Hx.
  apply in_map_iff in Hx as (b & <- & _). exact Hu.
Qed.

(** ** first_done along a stream *)

Lemma first_done_app more : forall pre acc rest,
  (forall q, strict_prefix q pre -> more (acc ++ q) = true) ->
  first_done more acc (pre ++ rest) = first_done more (acc ++ pre) rest.
Proof.
  induction pre as [|b pre IH]; intros acc rest H; cbn [app].
  - now rewrite app_nil_r.
  - cbn [first_done].
    assert (more acc = true) as ->.
    { rewrite <- (app_nil_r acc). apply H. exists (b :: pre). split; [discriminate|reflexivity]. }
    rewrite IH.
    + now rewrite <- app_assoc.
    + intros q [r [Hr ->]]. rewrite <- app_assoc. apply H. exists r. split; auto.
Qed.

Lemma first_done_all more s :
  (forall q, strict_prefix q s -> more q = true) ->
  fst (first_done more [] s) = s /\ snd (first_done more [] s) = [].
Proof.
  intros H. rewrite <- (app_nil_r s) at 1 3. rewrite first_done_app by exact H.
  cbn. destruct (more s); cbn; auto.
Qed.

Lemma first_done_stop more pre rest :
  (forall q, strict_prefix q pre -> more q = true) -> more pre = false ->
  first_done more [] (pre ++ rest) = (pre, rest).
Proof.
  intros H Hf. rewrite first_done_app by exact H. cbn [app].
  destruct rest; cbn; now rewrite Hf.
Qed.

(** ** query on a fresh terminal *)

Section Q.
Variable cost : nat -> Z.
Variable c : Z.
Hypothesis cost_bounded : forall i, 0 <= cost i <= c.
Variable cfg : config.
Variable term : terminal.
Hypothesis Hen : enabled cfg = true.

(** the replies to [request] arrive in order, no later than [D] after the write, and
    [D] plus one step per byte (and one for the write) is inside the timeout *)
Definition timely (request : list byte) (D : Z) : Prop :=
  nondecr 0 (term request) /\ Forall (fun u => fst u <= D) (term request) /\ 0 <= D /\
  D + c * (Z.of_nat (length (stream (term request))) + 1) < qtimeout cfg.

Lemma query_fresh more request st D :
  pend st = [] -> timely request D ->
  let bytes := stream (term request) in
  let fd := first_done more [] bytes in
  let k := length (fst fd) in
  let t_w := now st + cost (tick st) in
  exists st',
    query cost cfg term more request st = (Some (fst fd), st') /\
    pend st' = skipn k (flatten (shift t_w (term request))) /\
    map snd (pend st') = snd fd /\
    written st' = written st ++ [request] /\
    now st <= now st' /\
    Forall (fun a => fst a <= now st') (firstn k (flatten (shift t_w (term request)))) /\
    (more (fst fd) = false -> now st' <= now st + c + D + c * Z.of_nat k) /\
    (more (fst fd) = true -> pend st' = [] /\ now st' <= now st + qtimeout cfg + 2 * c).
Proof.
  intros Hp (Hnd & Hle & HD & Hm). cbn zeta.
  unfold query. rewrite Hen. cbn [negb]. rewrite Hp. cbn [filter].
  set (t_w := now st + cost (tick st)).
  set (pend' := flatten (shift t_w (term request))).
  pose proof (cost_bounded (tick st)) as Hc0.
  assert (Hmerge : merge [] pend' = pend').
  { rewrite (merge_sorted pend' [] (0 + t_w)); [reflexivity|constructor|].
    apply nd_flatten. now apply nondecr_shift. }
  rewrite Hmerge.
  assert (Hbytes : map snd pend' = stream (term request)).
  { unfold pend'. now rewrite flatten_bytes, stream_shift. }
  assert (HleB : Forall (fun a => fst a <= t_w + D) pend').
  { unfold pend'. apply flatten_le. unfold shift. apply Forall_map.
    eapply Forall_impl; [|exact Hle]. cbn. intros; lia. }
  assert (Hlen : length pend' = length (stream (term request))).
  { unfold pend'. now rewrite flatten_length, stream_shift. }
  destruct (read_loop_untimed cost c cost_bounded more (qtimeout cfg) pend' (S (tick st)) t_w t_w []
              (t_w + D) HleB) as (t & i' & E & Emap & Hfalse & Htrue); [lia| rewrite Hlen; lia |].
  rewrite Hbytes in E, Emap, Hfalse, Htrue. cbn [length] in E, Emap, Hfalse, Htrue.
  rewrite Nat.sub_0_r in E, Emap, Hfalse, Htrue.
  rewrite E. eexists; split; [reflexivity|]. cbn [pend written now].
  pose proof (read_loop_times cost c cost_bounded more (qtimeout cfg) pend' (S (tick st)) t_w t_w []) as Ht.
  rewrite E in Ht. destruct Ht as (Ht1 & Ht2 & Ht3).
  set (k := length (fst (first_done more [] (stream (term request))))) in *.
  assert (Hk : (k <= length pend')%nat).
  { rewrite Hlen. unfold k. pose proof (first_done_length more (stream (term request)) []) as HL. cbn in HL. lia. }
  rewrite skipn_length in Ht3. replace (length pend' - (length pend' - k))%nat with k in Ht3 by lia.
  split; [reflexivity|]. split; [exact Emap|]. split; [reflexivity|].
  split; [unfold t_w in *; lia|]. split; [exact Ht3|]. split.
  - intros H0. specialize (Hfalse H0). unfold t_w in *. lia.
  - intros H0. destruct (Htrue H0) as [A B]. split; [exact A|]. unfold t_w in *. lia.
Qed.

(** the terminal says nothing (or only after the deadline): empty response at the deadline *)
Lemma query_silent more request st :
  Forall (fun a => now st + cost (tick st) + qtimeout cfg <= fst a) (pend st) ->
  0 < qtimeout cfg -> more [] = true -> term request = [] ->
  exists st',
    query cost cfg term more request st = (Some [], st') /\
    pend st' = pend st /\ written st' = written st ++ [request] /\
    now st + qtimeout cfg <= now st' <= now st + qtimeout cfg + 2 * c.
Proof.
  intros Hlate Hto Hm Hterm. unfold query. rewrite Hen, Hterm. cbn [negb shift map flatten flat_map merge fold_left].
  pose proof (cost_bounded (tick st)) as Hc0.
  assert (Hkept : filter (fun a => now st <? fst a) (pend st) = pend st).
  { clear -Hlate Hc0 Hto. induction (pend st) as [|x l IH]; [reflexivity|]. inversion Hlate; subst.
    cbn. replace (now st <? fst x) with true by (symmetry; apply Z.ltb_lt; lia).
    f_equal. now apply IH. }
  rewrite Hkept.
  destruct (read_times_out_lemma cost c cost_bounded more (qtimeout cfg) (pend st) (S (tick st))
              (now st + cost (tick st)) Hlate Hto Hm) as (t & E & Ht).
  rewrite E. eexists; split; [reflexivity|]. cbn [pend written now].
  split; [reflexivity|]. split; [reflexivity|]. lia.
Qed.

(** ** reading everything: the single-phase queries (cell size, kitty support) *)
Lemma query_reads_all more request st D :
  pend st = [] -> timely request D ->
  (forall q, strict_prefix q (stream (term request)) -> more q = true) ->
  exists st',
    query cost cfg term more request st = (Some (stream (term request)), st') /\
    pend st' = [] /\ written st' = written st ++ [request] /\
    now st <= now st' <= now st + qtimeout cfg + 2 * c.
Proof.
  intros Hp Ht Hall. destruct (query_fresh more request st D Hp Ht)
    as (st' & E & Hpend & Hmap & Hw & Hnow & _ & Hf & Htr).
  destruct (first_done_all more _ Hall) as [E1 E2]. rewrite E1 in *.
  exists st'. split; [exact E|]. rewrite E2 in Hmap.
  split; [now apply map_eq_nil in Hmap|]. split; [exact Hw|]. split; [exact Hnow|].
  destruct Ht as (_ & _ & HD & Hm).
  destruct (more (stream (term request))) eqn:Em.
  - now destruct (Htr eq_refl).
  - specialize (Hf eq_refl). pose proof (c_nonneg cost c cost_bounded). nia.
Qed.

(** ** query until CSI, then drain: the two-phase getters.
    If the reader cannot stop before the LAST unit has begun to arrive, nothing is left:
    whatever part of that unit the first phase leaves is already there for the drain. *)
Lemma two_phase_drains request st D pre_s t_last last :
  pend st = [] -> timely request D ->
  term request = pre_s ++ [(t_last, last)] ->
  (forall q, prefix q (stream pre_s) -> more_not_csi q = true) ->
  let bytes := stream (term request) in
  exists st',
    two_phase cost cfg term request st = (Some (fst (first_done more_not_csi [] bytes)), st') /\
    pend st' = [] /\ written st' = written st ++ [request] /\
    now st <= now st' <= now st + qtimeout cfg + c * (Z.of_nat (length bytes) + 4).
Proof.
  intros Hp Ht Hterm Hpre. cbn zeta. unfold two_phase.
  destruct (query_fresh more_not_csi request st D Hp Ht)
    as (st1 & E & Hpend & Hmap & Hw & Hnow & Harr & Hf & Htr).
  rewrite E, Hen. eexists; split; [reflexivity|].
  set (fd := first_done more_not_csi [] (stream (term request))) in *.
  set (k := length (fst fd)) in *.
  set (t_w := now st + cost (tick st)) in *.
  (* the bytes of the last unit all arrive together *)
  assert (Hfl : flatten (shift t_w (term request))
                = flatten (shift t_w pre_s) ++ map (pair (t_last + t_w)) last).
  { rewrite Hterm, shift_app, flatten_app. cbn. now rewrite app_nil_r. }
  assert (Hlp : length (flatten (shift t_w pre_s)) = length (stream pre_s))
    by now rewrite flatten_length, stream_shift.
  assert (Hst : stream (term request) = stream pre_s ++ last).
  { rewrite Hterm. unfold stream. rewrite map_app, concat_app. cbn. now rewrite app_nil_r. }
  (* the first phase went through everything before the last unit *)
  assert (Hfd : fd = first_done more_not_csi (stream pre_s) last).
  { unfold fd. rewrite Hst. rewrite first_done_app; [reflexivity|].
    intros q [r [_ Hq]]. apply Hpre. exists r. exact Hq. }
  assert (Hmp : more_not_csi (stream pre_s) = true) by (apply Hpre; exists []; now rewrite app_nil_r).
  assert (Hk : (length (stream pre_s) + (if is_nil last then 0 else 1) <= k)%nat).
  { unfold k. rewrite Hfd. destruct last as [|b l]; cbn [is_nil first_done].
    - rewrite Hmp. cbn. lia.
    - rewrite Hmp. pose proof (first_done_length more_not_csi l (stream pre_s ++ [b])) as [L _].
      rewrite app_length in L. cbn in L. lia. }
  (* so all that is left has arrived *)
  assert (Hall : Forall (fun a => fst a <= now st1) (pend st1)).
  { rewrite Hpend, Hfl. rewrite Hfl in Harr.
    destruct last as [|b l].
    - cbn [map]. rewrite app_nil_r. rewrite skipn_all2; [constructor|]. cbn in Hk. lia.
    - cbn [is_nil] in Hk.
      rewrite skipn_app, firstn_app in *. rewrite Hlp in *.
      rewrite (skipn_all2 (flatten (shift t_w pre_s))) by lia. cbn [app].
      apply Forall_app in Harr as [_ Harr].
      assert (Hb : t_last + t_w <= now st1).
      { replace (k - length (stream pre_s))%nat with (S (k - length (stream pre_s) - 1)) in Harr by lia.
        cbn [map firstn] in Harr. inversion Harr; subst. cbn in *. lia. }
      apply Forall_forall. intros x Hx.
      assert (Hin : In x (map (pair (t_last + t_w)) (b :: l))).
      { rewrite <- (firstn_skipn (k - length (stream pre_s)) (map _ (b :: l))).
        apply in_or_app. now right. }
      apply in_map_iff in Hin as (y & <- & _). cbn. exact Hb. }
  unfold drain_tty.
  destruct (drain_all cost c cost_bounded (pend st1) (tick st1) (now st1) Hall) as (t & i' & Ed & Hdt).
  rewrite Ed. cbn [snd pend written now]. split; [reflexivity|]. split; [exact Hw|].
  pose proof (c_nonneg cost c cost_bounded) as Hc.
  assert (Hpl : (length (pend st1) <= length (stream (term request)))%nat).
  { rewrite Hpend, skipn_length, flatten_length, stream_shift. lia. }
  destruct Ht as (_ & _ & HD & Hm).
  split; [lia|].
  destruct (more_not_csi (fst fd)) eqn:Em.
  - destruct (Htr eq_refl) as [Hnil Hb]. rewrite Hnil in Hdt. cbn in Hdt. nia.
  - specialize (Hf eq_refl).
    assert (Z.of_nat k <= Z.of_nat (length (stream (term request)))).
    { unfold k, fd. pose proof (first_done_length more_not_csi (stream (term request)) []) as [_ L].
      cbn in L. lia. }
    nia.
Qed.

End Q.

(** ** queries disabled: nothing is written, nothing is read, no time passes *)
Section Disabled.
Variable cost : nat -> Z.
Variable cfg : config.
Variable term : terminal.
Hypothesis Hdis : enabled cfg = false.

Lemma query_disabled more request st : query cost cfg term more request st = (None, st).
Proof. unfold query. now rewrite Hdis. Qed.

Lemma two_phase_disabled request st : two_phase cost cfg term request st = (None, st).
Proof. unfold two_phase. rewrite query_disabled. now rewrite Hdis. Qed.

Lemma disabled_defaults st memo c0 :
  get_fg_bg cost cfg term st = (Some (None, None), st) /\
  get_name_version cost cfg term st = ((option_map lower (env_name cfg), env_version cfg), st) /\
  snd (get_cell_size cost cfg term c0 st) = st /\
  fst (kitty_is_supported cost cfg term (st, memo)) = false /\
  fst (snd (kitty_is_supported cost cfg term (st, memo))) = st /\
  fst (snd (auto_image_class cost cfg term (st, memo))) = st /\
  (forall s, fst (auto_image_class cost cfg term (st, memo)) = Some s -> s <> Kitty).
Proof.
  assert (Hnv : forall st, get_name_version cost cfg term st
                = ((option_map lower (env_name cfg), env_version cfg), st)).
  { intros. unfold get_name_version. rewrite two_phase_disabled.
    unfold name_version_of_response. reflexivity. }
  assert (Hc : forall w, fst (snd (cached_name_version cost cfg term w)) = fst w).
  { intros [s m]. unfold cached_name_version. cbn [snd fst]. destruct m; [reflexivity|].
    rewrite Hnv. reflexivity. }
  assert (Hk : fst (kitty_is_supported cost cfg term (st, memo)) = false /\
               fst (snd (kitty_is_supported cost cfg term (st, memo))) = st).
  { unfold kitty_is_supported. specialize (Hc (st, memo)).
    destruct (cached_name_version cost cfg term (st, memo)) as [nv w1]. cbn [fst snd] in *.
    destruct (name_is (fst nv) "iterm2"); [now split|].
    rewrite query_disabled. cbn [fst snd]. split; [|exact Hc].
    unfold kitty_supported. destruct (name_is (fst nv) "iterm2"); reflexivity. }
  split; [unfold get_fg_bg; now rewrite two_phase_disabled|].
  split; [apply Hnv|]. split.
  { unfold get_cell_size. destruct (cell_query_needed cfg c0); [|reflexivity].
    rewrite query_disabled. reflexivity. }
  destruct Hk as [Hk1 Hk2]. split; [exact Hk1|]. split; [exact Hk2|].
  unfold auto_image_class.
  destruct (kitty_is_supported cost cfg term (st, memo)) as [k w1]. cbn [fst snd] in *. subst k.
  unfold iterm2_is_supported. specialize (Hc w1).
  destruct (cached_name_version cost cfg term w1) as [nv w2]. cbn [fst snd] in *.
  split.
  - destruct (iterm2_supported (fst nv) (snd nv)) as [[|]|]; cbn; congruence.
  - intros s. destruct (iterm2_supported (fst nv) (snd nv)) as [[|]|]; cbn; congruence.
Qed.

End Disabled.

(** ** the terminal stays silent: the defaults, one timeout per query *)
Section Silent.
Variable cost : nat -> Z.
Variable c : Z.
Hypothesis cost_bounded : forall i, 0 <= cost i <= c.
Variable cfg : config.
Hypothesis Hen : enabled cfg = true.
Hypothesis Hto : 0 < qtimeout cfg.
Definition silent : terminal := fun _ => [].

Lemma two_phase_silent request st : pend st = [] ->
  exists st', two_phase cost cfg silent request st = (Some [], st') /\ pend st' = [] /\
              written st' = written st ++ [request] /\
              now st + qtimeout cfg <= now st' <= now st + qtimeout cfg + 3 * c.
Proof.
  intros Hp. unfold two_phase.
  destruct (query_silent cost c cost_bounded cfg silent Hen more_not_csi request st)
    as (st1 & E & Hp1 & Hw1 & Hn1); auto; [rewrite Hp; constructor|].
  rewrite E, Hen. unfold drain_tty, drain. rewrite Hp1, Hp.
  cbn [length drain_loop arrived take_while snd].
  eexists; split; [reflexivity|]. cbn [pend written now]. pose proof (cost_bounded (tick st1)).
  split; [reflexivity|]. split; [exact Hw1|]. lia.
Qed.

Lemma silent_defaults st c0 : pend st = [] ->
  (exists st', get_fg_bg cost cfg silent st = (Some (None, None), st') /\ pend st' = [] /\
               now st' <= now st + qtimeout cfg + 3 * c) /\
  (exists st', get_name_version cost cfg silent st
               = ((option_map lower (env_name cfg), env_version cfg), st') /\ pend st' = [] /\
               now st' <= now st + qtimeout cfg + 3 * c) /\
  (exists k st', kitty_is_supported cost cfg silent (st, None) = (k, (st', Some (option_map lower (env_name cfg), env_version cfg)))
               /\ k = false /\ pend st' = [] /\ now st' <= now st + 2 * qtimeout cfg + 5 * c) /\
  (let '(_, _, st') := get_cell_size cost cfg silent c0 st in
   pend st' = [] /\ now st' <= now st + qtimeout cfg + 2 * c).
Proof.
  intros Hp.
  assert (Hnv : exists st', get_name_version cost cfg silent st
               = ((option_map lower (env_name cfg), env_version cfg), st') /\ pend st' = [] /\
               now st + qtimeout cfg <= now st' <= now st + qtimeout cfg + 3 * c).
  { unfold get_name_version. destruct (two_phase_silent (XTVERSION_q ++ DA1_q) st Hp)
      as (st' & E & Hp' & _ & Hn). rewrite E. exists st'. repeat split; auto; lia. }
  pose proof (c_nonneg cost c cost_bounded) as Hc.
  split; [|split; [|split]].
  - unfold get_fg_bg. destruct (two_phase_silent (TEXT_FG_q ++ TEXT_BG_q ++ DA1_q) st Hp)
      as (st' & E & Hp' & _ & Hn). rewrite E. exists st'. repeat split; auto; lia.
  - destruct Hnv as (st' & E & Hp' & Hn). exists st'. repeat split; auto; lia.
  - destruct Hnv as (st1 & E & Hp1 & Hn1). unfold kitty_is_supported, cached_name_version.
    cbn [snd fst]. rewrite E. cbn [fst snd].
    destruct (name_is (option_map lower (env_name cfg)) "iterm2") eqn:Ei.
    + eexists _, _; split; [reflexivity|]. repeat split; auto. lia.
    + destruct (query_silent cost c cost_bounded cfg silent Hen more_kitty (KITTY_SUPPORT_q ++ DA1_q) st1)
        as (st2 & E2 & Hp2 & _ & Hn2); auto; [rewrite Hp1; constructor|].
      rewrite E2. eexists _, _; split; [reflexivity|]. cbn [fst snd].
      split; [|split; [congruence|lia]].
      unfold kitty_supported. rewrite Ei. reflexivity.
  - unfold get_cell_size. destruct (cell_query_needed cfg c0).
    + destruct (query_silent cost c cost_bounded cfg silent Hen more_not_c
                  (CELL_SIZE_PX_q ++ TEXT_AREA_SIZE_PX_q ++ DA1_q) st)
        as (st2 & E2 & Hp2 & _ & Hn2); auto; [rewrite Hp; constructor|].
      rewrite E2. destruct (cell_of_response cfg c0 (Some [])). split; [congruence|lia].
    + destruct (cell_of_response cfg c0 None). split; [exact Hp|lia].
Qed.

End Silent.

(** ** the read loop does not see how the reply stream was cut into bursts *)
Section Split.
Variable c : Z.
Variable more : list byte -> bool.
Variable timeout : Z.

Definition result_bytes (r : list byte * list arrival * Z * nat) : list byte * list byte :=
  let '(inp, rest, _, _) := r in (inp, map snd rest).

Lemma read_first_done cost (Hc : forall i, 0 <= cost i <= c) s i start B :
  Forall (fun u => fst u <= B) s -> start <= B ->
  B + c * Z.of_nat (length (stream s)) < start + timeout ->
  result_bytes (read_loop cost more timeout (flatten s) i start start [])
  = first_done more [] (stream s).
Proof.
  intros Hle Hs Hm.
  destruct (read_loop_untimed cost c Hc more timeout (flatten s) i start start [] B)
    as (t & i' & E & Emap & _); [now apply flatten_le | exact Hs | now rewrite flatten_length |].
  rewrite E. unfold result_bytes. rewrite Emap, flatten_bytes.
  now destruct (first_done more [] (stream s)).
Qed.

Lemma read_split_independent_lemma cost1 cost2
      (H1 : forall i, 0 <= cost1 i <= c) (H2 : forall i, 0 <= cost2 i <= c) s1 s2 i1 i2 start B :
  stream s1 = stream s2 ->
  Forall (fun u => fst u <= B) s1 -> Forall (fun u => fst u <= B) s2 -> start <= B ->
  B + c * Z.of_nat (length (stream s1)) < start + timeout ->
  result_bytes (read_loop cost1 more timeout (flatten s1) i1 start start [])
  = result_bytes (read_loop cost2 more timeout (flatten s2) i2 start start []).
Proof.
  intros Es L1 L2 Hs Hm. rewrite (read_first_done cost1 H1 s1 i1 start B); auto.
  rewrite (read_first_done cost2 H2 s2 i2 start B); auto; congruence.
Qed.

Lemma read_stops_at_first_done_lemma cost (Hc : forall i, 0 <= cost i <= c) s i start B :
  Forall (fun u => fst u <= B) s -> start <= B ->
  B + c * Z.of_nat (length (stream s)) < start + timeout ->
  let '(inp, rest, t, _) := read_loop cost more timeout (flatten s) i start start [] in
  stream s = inp ++ map snd rest /\
  (forall q, strict_prefix q inp -> more q = true) /\
  (more inp = false \/ rest = []) /\
  (more inp = false -> t <= B + c * Z.of_nat (length inp)) /\
  (more inp = true -> start + timeout <= t <= start + timeout + c).
Proof.
  intros Hle Hs Hm.
  destruct (read_loop_untimed cost c Hc more timeout (flatten s) i start start [] B)
    as (t & i' & E & Emap & Hf & Ht); [now apply flatten_le | exact Hs | now rewrite flatten_length |].
  rewrite E. rewrite flatten_bytes in *. cbn [length] in *. rewrite Nat.sub_0_r in *.
  destruct (first_done more [] (stream s)) as [p r] eqn:Efd. cbn [fst snd] in *.
  destruct (first_done_spec more (stream s) [] p r Efd) as (E1 & _ & Hall & Hend).
  cbn [app] in E1. rewrite Emap. split; [exact E1|]. split.
  - intros q Hq. apply Hall; auto. exists q. reflexivity.
  - split.
    + destruct Hend as [Hend|Hend]; [now left|]. right. rewrite Hend in Emap.
      now apply map_eq_nil in Emap.
    + split; [intros H; specialize (Hf H); lia|]. intros H. now destruct (Ht H).
Qed.

End Split.
