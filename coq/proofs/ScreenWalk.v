(** C18 — the shard walk of [_ti_clear_images] computes, for every well-formed layout
    (bands of rectangles with spans), exactly the positions of the tracked image views. *)
From Coq Require Import List ZArith Bool Lia Arith.
Import ListNotations.
From TI Require Import lib.Term model.Screen.
Open Scope nat_scope.

Local Arguments Nat.eqb : simpl never.
Local Arguments Nat.ltb : simpl never.

(** *** finite maps *)

Lemma tfind_tremove_same : forall k d, tfind k (tremove k d) = None.
Proof.
  induction d as [|[k' v] t IH]; simpl; [reflexivity|].
  destruct (Nat.eqb k' k) eqn:E; simpl; [exact IH|]. rewrite E. exact IH.
Qed.

Lemma tfind_tremove_other : forall k k' d, k <> k' -> tfind k (tremove k' d) = tfind k d.
Proof.
  induction d as [|[k0 v] t IH]; simpl; intro H; [reflexivity|].
  destruct (Nat.eqb k0 k') eqn:E; simpl.
  - apply Nat.eqb_eq in E. subst. destruct (Nat.eqb k' k) eqn:E2; [apply Nat.eqb_eq in E2; lia|]. auto.
  - destruct (Nat.eqb k0 k); auto.
Qed.

Lemma tfind_tset_same : forall k v d, tfind k (tset k v d) = Some v.
Proof. intros. unfold tset. simpl. rewrite Nat.eqb_refl. reflexivity. Qed.

Lemma tfind_tset_other : forall k k' v d, k <> k' -> tfind k (tset k' v d) = tfind k d.
Proof.
  intros. unfold tset. simpl. destruct (Nat.eqb k' k) eqn:E; [apply Nat.eqb_eq in E; lia|].
  apply tfind_tremove_other. exact H.
Qed.

Lemma tfind_app : forall k a b, tfind k (a ++ b) = match tfind k a with Some v => Some v | None => tfind k b end.
Proof.
  induction a as [|[k' v] t IH]; simpl; intro b; [reflexivity|]. destruct (Nat.eqb k' k); [reflexivity|apply IH].
Qed.

Lemma tails_from_low : forall n cs col k, k < col -> tfind k (tails_from n col cs) = None.
Proof.
  induction cs as [|c t IH]; simpl; intros col k H; [reflexivity|].
  rewrite tfind_app. destruct (n <? cell_rows c); simpl.
  - destruct (Nat.eqb col k) eqn:E; [apply Nat.eqb_eq in E; lia|]. apply IH. lia.
  - apply IH. lia.
Qed.

Lemma conts_from_low : forall cs col k, k < col -> tfind k (conts_from col cs) = None.
Proof.
  induction cs as [|c t IH]; simpl; intros col k H; [reflexivity|].
  rewrite tfind_app. destruct c as [cv|w r]; simpl.
  - apply IH. lia.
  - destruct (Nat.eqb col k) eqn:E; [apply Nat.eqb_eq in E; lia|]. apply IH. lia.
Qed.

Lemma tails_eqb_eq : forall a b, tails_eqb a b = true -> a = b.
Proof.
  induction a as [|[k [w r]] t IH]; destruct b as [|[k' [w' r']] t']; simpl; intro H; try discriminate; [reflexivity|].
  repeat rewrite andb_true_iff in H. destruct H as [[[H1 H2] H3] H4].
  apply Nat.eqb_eq in H1, H2, H3. subst. f_equal. auto.
Qed.

(** *** one band *)

(** [walk_cviews] = a call of process_shard_tails, then the rest *)
Definition after_pst (F : nat) (konsole : bool) (n row : nat) (cvs : list cview) (r : option (nat * tails))
  : option (tails * list view) :=
  match cvs with
  | [] => match r with None => None | Some (_, d') => Some (d', []) end
  | cv :: rest =>
    match r with
    | None => None
    | Some (col1, d1) =>
      let here := if tracked konsole (cv_canv cv)
                  then [mk_view (cv_canv cv) row col1 (cv_tl cv) (cv_tt cv) (cv_cols cv) (cv_rows cv)]
                  else [] in
      let d2 := if n <? cv_rows cv then tset col1 (cv_cols cv, cv_rows cv - n) d1 else d1 in
      match walk_cviews F konsole n row rest (col1 + cv_cols cv) d2 with
      | None => None
      | Some (d3, vs) => Some (d3, here ++ vs)
      end
    end
  end.

Lemma walk_cviews_unfold : forall F konsole n row cvs col d,
  walk_cviews F konsole n row cvs col d = after_pst F konsole n row cvs (pst F n col d).
Proof. intros. destruct cvs; simpl; destruct (pst F n col d) as [[? ?]|]; reflexivity. Qed.

Lemma band_walk : forall konsole n row F cs f col d,
  Forall (fun c => 0 < cell_cols c) cs -> length cs < f -> length cs < F ->
  (forall k, col <= k -> tfind k d = tfind k (conts_from col cs)) ->
  exists d', after_pst F konsole n row (news_of cs) (pst f n col d)
             = Some (d', positions_cells konsole row col cs)
    /\ (forall k, col <= k -> tfind k d' = tfind k (tails_from n col cs))
    /\ (forall k, k < col -> tfind k d' = tfind k d).
Proof.
  intros konsole n row F. induction cs as [|c cs IH]; intros f col d Hpos Hf HF Hd.
  - destruct f as [|f]; [simpl in Hf; lia|]. simpl.
    rewrite (Hd col (Nat.le_refl _)). simpl. exists d. split; [reflexivity|]. split; [|reflexivity].
    intros k Hk. rewrite Hd by exact Hk. reflexivity.
  - inversion Hpos as [|? ? Hc Hpos']; subst. simpl in Hf, HF.
    destruct f as [|f]; [lia|].
    destruct c as [cv|w r].
    + (* a cview that starts here *)
      simpl in Hc.
      assert (Hnone : tfind col d = None).
      { rewrite (Hd col (Nat.le_refl _)). simpl. apply conts_from_low. lia. }
      simpl pst. rewrite Hnone. simpl news_of. simpl after_pst.
      rewrite walk_cviews_unfold.
      set (d2 := if n <? cv_rows cv then tset col (cv_cols cv, cv_rows cv - n) d else d).
      assert (Hd2 : forall k, k <> col -> tfind k d2 = tfind k d).
      { intros k Hk. unfold d2. destruct (n <? cv_rows cv); [apply tfind_tset_other; exact Hk|reflexivity]. }
      destruct (IH F (col + cv_cols cv) d2 Hpos' ltac:(lia) ltac:(lia)) as [d' [Hw [Hge Hlt]]].
      { intros k Hk. rewrite Hd2 by lia. rewrite Hd by lia. simpl. reflexivity. }
      exists d'. rewrite Hw. split; [reflexivity|]. split.
      * intros k Hk. simpl tails_from. simpl cell_rows. simpl cell_cols. rewrite tfind_app.
        destruct (Nat.eq_dec k col) as [->|Hne].
        -- rewrite Hlt by lia. unfold d2. destruct (n <? cv_rows cv).
           ++ rewrite tfind_tset_same. simpl. rewrite Nat.eqb_refl. reflexivity.
           ++ simpl. rewrite Hnone. symmetry. apply tails_from_low. lia.
        -- match goal with |- _ = match tfind k ?X with _ => _ end => assert (Hskip : tfind k X = None) end.
           { destruct (n <? cv_rows cv); simpl; [|reflexivity].
             destruct (Nat.eqb col k) eqn:E; [apply Nat.eqb_eq in E; lia|reflexivity]. }
           rewrite Hskip. destruct (le_lt_dec (col + cv_cols cv) k) as [Hk2|Hk2].
           ++ apply Hge. exact Hk2.
           ++ rewrite Hlt by exact Hk2. rewrite Hd2 by exact Hne. rewrite Hd by exact Hk. simpl.
              rewrite conts_from_low by exact Hk2. symmetry. apply tails_from_low. exact Hk2.
      * intros k Hk. rewrite Hlt by lia. apply Hd2. lia.
    + (* the continuation of a cview from above: skipped by process_shard_tails *)
      simpl in Hc.
      assert (Hsome : tfind col d = Some (w, r)).
      { rewrite (Hd col (Nat.le_refl _)). simpl. rewrite Nat.eqb_refl. reflexivity. }
      simpl pst. rewrite Hsome. simpl news_of.
      set (d1 := if n <? r then tset col (w, r - n) d else tremove col d).
      assert (Hd1 : forall k, k <> col -> tfind k d1 = tfind k d).
      { intros k Hk. unfold d1. destruct (n <? r); [apply tfind_tset_other|apply tfind_tremove_other]; exact Hk. }
      destruct (IH f (col + w) d1 Hpos' ltac:(lia) ltac:(lia)) as [d' [Hw [Hge Hlt]]].
      { intros k Hk. rewrite Hd1 by lia. rewrite Hd by lia. simpl.
        destruct (Nat.eqb col k) eqn:E; [apply Nat.eqb_eq in E; lia|reflexivity]. }
      exists d'. split; [exact Hw|]. split.
      * intros k Hk. simpl tails_from. simpl cell_rows. simpl cell_cols. rewrite tfind_app.
        destruct (Nat.eq_dec k col) as [->|Hne].
        -- rewrite Hlt by lia. unfold d1. destruct (n <? r).
           ++ rewrite tfind_tset_same. simpl. rewrite Nat.eqb_refl. reflexivity.
           ++ rewrite tfind_tremove_same. simpl. symmetry. apply tails_from_low. lia.
        -- match goal with |- _ = match tfind k ?X with _ => _ end => assert (Hskip : tfind k X = None) end.
           { destruct (n <? r); simpl; [|reflexivity].
             destruct (Nat.eqb col k) eqn:E; [apply Nat.eqb_eq in E; lia|reflexivity]. }
           rewrite Hskip. destruct (le_lt_dec (col + w) k) as [Hk2|Hk2].
           ++ apply Hge. exact Hk2.
           ++ rewrite Hlt by exact Hk2. rewrite Hd1 by exact Hne. rewrite Hd by exact Hk. simpl.
              destruct (Nat.eqb col k) eqn:E; [apply Nat.eqb_eq in E; lia|].
              rewrite conts_from_low by exact Hk2. symmetry. apply tails_from_low. exact Hk2.
      * intros k Hk. rewrite Hlt by lia. apply Hd1. lia.
Qed.

(** *** all bands *)

Lemma forallb_pos : forall cs, forallb (fun c => 0 <? cell_cols c) cs = true -> Forall (fun c => 0 < cell_cols c) cs.
Proof.
  induction cs as [|c t IH]; simpl; intro H; constructor.
  - apply andb_true_iff in H. destruct H as [H _]. apply Nat.ltb_lt in H. exact H.
  - apply IH. apply andb_true_iff in H. tauto.
Qed.

Lemma shards_walk : forall konsole F l row d prev,
  wf_bands prev l = true ->
  (forall b, In b l -> length (snd b) < F) ->
  (forall k, 1 <= k -> tfind k d = tfind k prev) ->
  walk_shards F konsole (shards_of l) row d = Some (positions_from konsole row l).
Proof.
  intros konsole F. induction l as [|[n cs] l IH]; intros row d prev Hwf HF Hd; [reflexivity|].
  simpl in Hwf. repeat rewrite andb_true_iff in Hwf. destruct Hwf as [[Hpos Hc] Hrest].
  apply tails_eqb_eq in Hc. apply forallb_pos in Hpos.
  assert (HFb : length cs < F) by (apply (HF (n, cs)); now left).
  simpl. rewrite walk_cviews_unfold.
  destruct (band_walk konsole n row F cs F 1 d Hpos HFb HFb) as [d' [Hw [Hge _]]].
  { intros k Hk. rewrite Hc. apply Hd. exact Hk. }
  rewrite Hw. rewrite (IH (row + n) d' (tails_from n 1 cs) Hrest).
  - reflexivity.
  - intros b Hb. apply HF. now right.
  - exact Hge.
Qed.

Lemma layout_fuel_bound : forall l b, In b l -> length (snd b) < layout_fuel l.
Proof.
  unfold layout_fuel. induction l as [|b0 l IH]; simpl; intros b H; [tauto|]. destruct H as [->|H].
  - lia.
  - specialize (IH b H). lia.
Qed.

Lemma walk_positions_lemma : forall konsole l fuel,
  wf_layout l = true -> layout_fuel l <= fuel ->
  walk fuel konsole (shards_of l) = Some (positions konsole l).
Proof.
  intros konsole l fuel Hwf Hf. unfold walk, positions.
  apply (shards_walk konsole fuel l 1 [] []).
  - exact Hwf.
  - intros b Hb. apply layout_fuel_bound in Hb. lia.
  - reflexivity.
Qed.

(** *** non-vacuity: the layout of the library's own test (an overlay over two columns,
    cf. tests/widget/urwid/test_screen.py): a line box on top, a kitty image (canvas 1,
    z = 1) whose middle part is hidden by an overlay, next to an iTerm2 image on Konsole
    that spans the bands; the walk finds the four views at the columns a reader expects. *)
Definition ex_kitty : canvinfo := mk_canv 1 (CImage 0 (WKitty 1)).
Definition ex_iterm : canvinfo := mk_canv 2 (CImage 1 WIterm).
Definition ex_text (i : nat) : canvinfo := mk_canv i CPlain.
Definition ex_layout : layout :=
  [ (1, [CNew (mk_cview 0 0 30 1 (ex_text 10))]);
    (2, [CNew (mk_cview 0 0 1 9 (ex_text 11)); CNew (mk_cview 0 0 12 2 ex_kitty);
         CNew (mk_cview 0 0 2 9 (ex_text 12)); CNew (mk_cview 0 0 14 9 ex_iterm); CNew (mk_cview 0 0 1 9 (ex_text 13))]);
    (3, [CCont 1 7; CNew (mk_cview 0 2 4 3 ex_kitty); CNew (mk_cview 0 0 8 3 (ex_text 14));
         CCont 2 7; CCont 14 7; CCont 1 7]);
    (4, [CCont 1 4; CNew (mk_cview 0 5 12 4 ex_kitty); CCont 2 4; CCont 14 4; CCont 1 4]) ].
Example ex_layout_wf : wf_layout ex_layout = true.
Proof. vm_compute. reflexivity. Qed.
Example ex_layout_walk :
  walk (layout_fuel ex_layout) true (shards_of ex_layout)
  = Some [ mk_view ex_kitty 2 2 0 0 12 2; mk_view ex_iterm 2 16 0 0 14 9;
           mk_view ex_kitty 4 2 0 2 4 3; mk_view ex_kitty 7 2 0 5 12 4 ].
Proof. vm_compute. reflexivity. Qed.
