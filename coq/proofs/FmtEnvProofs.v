(** C19 — the environment dimension: proofs.

    [format_geometry_agrees]    in EVERY environment (any terminal size >= 1x3, standard
                                streams on a terminal or not) the string format() returns
                                has the geometry the documented meaning of the specifier
                                demands, for every render size;
    [format_env_independent]    the result depends on the environment through the terminal
                                size only — not on which streams are terminals
                                ([format_tty_independent]: forall tty, fmt tty = fmt (negb tty));
    [explicit_width_as_given],
    [explicit_height_as_given]  an explicit positive padding size is used as written in
                                every environment, in particular above the terminal size;
    [conforming_format_ignores_tty]  ANY formatting function that meets the documented
                                geometry in every environment accepts the same specifiers and
                                yields the same padded size whatever the streams are;
    [ttycap_invisible_off_tty], [ttycap_refuted]
                                the excluded design (cap at the terminal width when stdout
                                is a terminal) coincides with the code whenever stdout is not
                                a terminal — and contradicts the documented geometry on one. *)
From Coq Require Import List Bool Arith NArith ZArith Lia.
Import ListNotations.
From TI Require Import lib.Re lib.CRe gen.Regexes model.FmtSpec model.FmtEnv proofs.FmtSpecProofs.
Local Open Scope Z_scope.

(** * _format_render places the render as the documented meaning says *)

Lemma near_half_div : forall d, 0 <= d -> near_half (d / 2) d = true.
Proof.
  intros d Hd. unfold near_half. apply Z.leb_le.
  pose proof (Z.div_mod d 2 ltac:(lia)) as E.
  pose proof (Z.mod_pos_bound d 2 ltac:(lia)) as B. lia.
Qed.

Ltac crack x :=
  destruct x as [|x]; [reflexivity|];
  repeat (first [reflexivity | (exfalso; lia) | destruct x as [x|x|]]).

Lemma render_geom_ok : forall r rs, 1 <= rc rs -> 1 <= rl rs ->
  geom_ok (denote r) rs
    (format_render_geom rs (r_halign r) (r_width r) (r_valign r) (r_height r)) = true.
Proof.
  intros r rs Hc Hl. destruct r as [ha w va h al sa]. destruct rs as [c l].
  unfold geom_ok, format_render_geom, denote.
  cbn [r_halign r_width r_valign r_height r_alpha r_sargs m_h m_pw m_v m_ph rc rl
       g_lines g_width g_top g_left] in *.
  assert (HW : (if c <? w then w else c) = Z.max w c).
  { destruct (c <? w) eqn:E; [apply Z.ltb_lt in E | apply Z.ltb_ge in E]; lia. }
  assert (HH : (if l <? h then h else l) = Z.max h l).
  { destruct (l <? h) eqn:E; [apply Z.ltb_lt in E | apply Z.ltb_ge in E]; lia. }
  rewrite HW, HH. rewrite !Z.eqb_refl. cbn [andb].
  apply andb_true_iff. split.
  - (* horizontal *)
    destruct (c <? w) eqn:E; [apply Z.ltb_lt in E | apply Z.ltb_ge in E].
    + replace (Z.max w c) with w by lia.
      destruct ha as [x|].
      * destruct (N.eq_dec x 60) as [->|N60]; [apply Z.eqb_refl|].
        destruct (N.eq_dec x 62) as [->|N62]; [apply Z.eqb_refl|].
        assert (X : match x with 60%N => HLeft | 62%N => HRight | _ => HCenter end = HCenter).
        { crack x. }
        assert (Y : match x with 60%N => 0 | 62%N => w - c | _ => (w - c) / 2 end = (w - c) / 2).
        { crack x. }
        rewrite X, Y. apply near_half_div. lia.
      * apply near_half_div. lia.
    + replace (Z.max w c) with c by lia. rewrite Z.sub_diag.
      destruct ha as [x|]; [|reflexivity].
      destruct (match x with 60%N => HLeft | 62%N => HRight | _ => HCenter end); reflexivity.
  - (* vertical *)
    destruct (l <? h) eqn:E; [apply Z.ltb_lt in E | apply Z.ltb_ge in E].
    + replace (Z.max h l) with h by lia.
      destruct va as [x|].
      * destruct (N.eq_dec x 94) as [->|N94]; [apply Z.eqb_refl|].
        destruct (N.eq_dec x 95) as [->|N95]; [apply Z.eqb_refl|].
        assert (X : match x with 94%N => VTop | 95%N => VBottom | _ => VMiddle end = VMiddle).
        { crack x. }
        assert (Y : match x with 94%N => 0 | 95%N => h - l | _ => (h - l) / 2 end = (h - l) / 2).
        { crack x. }
        rewrite X, Y. apply near_half_div. lia.
      * apply near_half_div. lia.
    + replace (Z.max h l) with l by lia. rewrite Z.sub_diag.
      destruct va as [x|]; [|reflexivity].
      destruct (match x with 94%N => VTop | 95%N => VBottom | _ => VMiddle end); reflexivity.
Qed.

(** * format() in an environment *)

(** in every environment, the geometry of the formatted string is the documented one;
    a refusal is the documented z-index range *)
Theorem format_geometry_agrees : forall e sty rs f sf,
  1 <= cols (e_ts e) -> 3 <= lines (e_ts e) -> 1 <= rc rs -> 1 <= rl rs ->
  fields_wf f = true -> sf_ok sty sf = true ->
  match impl_format e sty rs f sf with
  | FOk g a sa =>
      exists m, doc_interp (e_ts e) sty f sf = Some m /\ geom_ok m rs g = true
                /\ m_t m = denote_alpha a
  | FValueErr => doc_interp (e_ts e) sty f sf = None
  | FStyleErr => False
  end.
Proof.
  intros e sty rs f sf HC HL Hc Hl HF HS.
  pose proof (interp_agrees (e_ts e) sty f sf HC HL HF HS) as IA.
  unfold impl_format. destruct (interp (e_ts e) sty f sf) as [r| |].
  - exists (denote r). split; [exact IA|]. split; [apply render_geom_ok; assumption|reflexivity].
  - exact IA.
  - exact IA.
Qed.

(** the environment enters through the terminal size only *)
Theorem format_env_independent : forall e1 e2 sty rs f sf,
  e_ts e1 = e_ts e2 -> impl_format e1 sty rs f sf = impl_format e2 sty rs f sf.
Proof. intros e1 e2 sty rs f sf H. unfold impl_format. rewrite H. reflexivity. Qed.

(** forall tty, fmt tty spec = fmt (negb tty) spec — for each of the three streams *)
Theorem format_tty_independent : forall ts i o r sty rs f sf,
  let fmt i o r := impl_format {| e_ts := ts; e_in_tty := i; e_out_tty := o; e_err_tty := r |} sty rs f sf in
  fmt i o r = fmt i (negb o) r /\ fmt i o r = fmt (negb i) o r /\ fmt i o r = fmt i o (negb r).
Proof. intros. repeat split. Qed.

(** ** explicit sizes are used as given *)

Definition explicit (ds : list N) : Prop := ds <> [] /\ 0 < int_of ds.

Theorem explicit_width_as_given : forall e sty rs f sf g a sa,
  explicit (f_width f) ->
  impl_format e sty rs f sf = FOk g a sa ->
  g_width g = Z.max (int_of (f_width f)) (rc rs).
Proof.
  intros e sty rs f sf g a sa [NE POS] H. unfold impl_format, interp, check_formatting in H.
  destruct (f_width f) as [|d w] eqn:EW; [contradiction|]. cbn [is_nil] in H.
  apply Z.ltb_lt in POS. rewrite POS in H.
  destruct sf as [sf|].
  - destruct (impl_sargs sty sf); [|discriminate]. inversion H; subst; clear H.
    unfold format_render_geom. cbn [g_width r_width].
    apply Z.ltb_lt in POS.
    destruct (rc rs <? int_of (d :: w)) eqn:E; [apply Z.ltb_lt in E | apply Z.ltb_ge in E]; lia.
  - inversion H; subst; clear H.
    unfold format_render_geom. cbn [g_width r_width].
    destruct (rc rs <? int_of (d :: w)) eqn:E; [apply Z.ltb_lt in E | apply Z.ltb_ge in E]; lia.
Qed.

Theorem explicit_height_as_given : forall e sty rs f sf g a sa,
  explicit (f_height f) ->
  impl_format e sty rs f sf = FOk g a sa ->
  g_lines g = Z.max (int_of (f_height f)) (rl rs).
Proof.
  intros e sty rs f sf g a sa [NE POS] H. unfold impl_format, interp, check_formatting in H.
  destruct (f_height f) as [|d w] eqn:EW; [contradiction|]. cbn [is_nil] in H.
  apply Z.ltb_lt in POS. rewrite POS in H.
  destruct sf as [sf|].
  - destruct (impl_sargs sty sf); [|discriminate]. inversion H; subst; clear H.
    unfold format_render_geom. cbn [g_lines r_height].
    destruct (rl rs <? int_of (d :: w)) eqn:E; [apply Z.ltb_lt in E | apply Z.ltb_ge in E]; lia.
  - inversion H; subst; clear H.
    unfold format_render_geom. cbn [g_lines r_height].
    destruct (rl rs <? int_of (d :: w)) eqn:E; [apply Z.ltb_lt in E | apply Z.ltb_ge in E]; lia.
Qed.

(** the documented padding width of an explicit positive width does not mention the
    terminal at all *)
Lemma doc_explicit_width : forall ts f, explicit (f_width f) -> doc_pw ts f = int_of (f_width f).
Proof.
  intros ts f [NE POS]. unfold doc_pw, pad. destruct (f_width f); [contradiction|].
  cbn [is_nil]. apply Z.ltb_lt in POS. rewrite POS. reflexivity.
Qed.

Lemma doc_explicit_height : forall ts f, explicit (f_height f) -> doc_ph ts f = int_of (f_height f).
Proof.
  intros ts f [NE POS]. unfold doc_ph, pad. destruct (f_height f); [contradiction|].
  cbn [is_nil]. apply Z.ltb_lt in POS. rewrite POS. reflexivity.
Qed.

(** * Any conforming formatting function *)

Section Conforming.
  (** a formatting function observed from outside: [None] = refused *)
  Variable F : env -> style -> rsize -> fields -> option sfields -> option geom.
  (** it meets the documented meaning in every environment *)
  Hypothesis conforms : forall e sty rs f sf,
    match F e sty rs f sf with
    | Some g => exists m, doc_interp (e_ts e) sty f sf = Some m /\ geom_ok m rs g = true
    | None => doc_interp (e_ts e) sty f sf = None
    end.

  Theorem conforming_format_ignores_tty : forall e1 e2 sty rs f sf,
    e_ts e1 = e_ts e2 ->
    match F e1 sty rs f sf, F e2 sty rs f sf with
    | Some g1, Some g2 => g_width g1 = g_width g2 /\ g_lines g1 = g_lines g2
    | None, None => True
    | _, _ => False
    end.
  Proof.
    intros e1 e2 sty rs f sf HT.
    pose proof (conforms e1 sty rs f sf) as C1. pose proof (conforms e2 sty rs f sf) as C2.
    rewrite HT in C1.
    destruct (F e1 sty rs f sf) as [g1|], (F e2 sty rs f sf) as [g2|].
    - destruct C1 as (m1 & D1 & G1). destruct C2 as (m2 & D2 & G2).
      rewrite D1 in D2. inversion D2; subst m2.
      unfold geom_ok in G1, G2.
      repeat (apply andb_true_iff in G1; destruct G1 as [G1 ?]).
      repeat (apply andb_true_iff in G2; destruct G2 as [G2 ?]).
      apply Z.eqb_eq in G1, G2.
      repeat match goal with H : (_ =? _) = true |- _ => apply Z.eqb_eq in H end.
      split; congruence.
    - destruct C1 as (m1 & D1 & _). congruence.
    - destruct C2 as (m2 & D2 & _). congruence.
    - exact I.
  Qed.

  (** and an explicit padding width is the width of its output in every environment,
      whatever the terminal size *)
  Theorem conforming_explicit_width : forall e sty rs f sf g,
    explicit (f_width f) -> F e sty rs f sf = Some g ->
    g_width g = Z.max (int_of (f_width f)) (rc rs).
  Proof.
    intros e sty rs f sf g EX H. pose proof (conforms e sty rs f sf) as C. rewrite H in C.
    destruct C as (m & D & G). unfold geom_ok in G.
    repeat (apply andb_true_iff in G; destruct G as [G ?]). apply Z.eqb_eq in G.
    rewrite G. f_equal.
    unfold doc_interp in D. destruct sf as [sf|].
    - destruct (z_in_range (doc_z sf)); [|discriminate]. inversion D; subst m. cbn [m_pw].
      apply doc_explicit_width; assumption.
    - inversion D; subst m. cbn [m_pw]. apply doc_explicit_width; assumption.
  Qed.
End Conforming.

(** the model of the code is such a function *)
Definition impl_F (e : env) (sty : style) (rs : rsize) (f : fields) (sf : option sfields) : option geom :=
  match impl_format e sty rs f sf with FOk g _ _ => Some g | _ => None end.

(** * The excluded design *)

(** with standard output not a terminal it IS the code: no run with stdout on a pipe can
    tell them apart *)
Theorem ttycap_invisible_off_tty : forall e sty rs f sf,
  e_out_tty e = false -> impl_format_ttycap e sty rs f sf = impl_format e sty rs f sf.
Proof.
  intros e sty rs f sf H. unfold impl_format_ttycap, impl_format. rewrite H. reflexivity.
Qed.

(** nor can padding widths up to the terminal width *)
Theorem ttycap_invisible_within_terminal : forall e sty rs f sf,
  match interp (e_ts e) sty f sf with Accepted r => r_width r <= cols (e_ts e) | _ => True end ->
  impl_format_ttycap e sty rs f sf = impl_format e sty rs f sf.
Proof.
  intros e sty rs f sf H. unfold impl_format_ttycap, impl_format.
  destruct (interp (e_ts e) sty f sf) as [r| |]; try reflexivity.
  destruct (e_out_tty e); [|reflexivity]. rewrite Z.min_l by exact H. reflexivity.
Qed.

(* "100" on an 80x30 terminal, a render of 2 columns x 1 line *)
Definition f100 : fields :=
  {| f_halign := None; f_width := [49; 48; 48]%N; f_dot := false; f_valign := None; f_height := [];
     f_hash := false; f_thr := []; f_style := None |}.
Definition on_tty (b : bool) : env :=
  {| e_ts := {| cols := 80; lines := 30 |}; e_in_tty := b; e_out_tty := b; e_err_tty := b |}.
Definition rs21 : rsize := {| rc := 2; rl := 1 |}.

(** on a terminal it contradicts the documented geometry *)
Theorem ttycap_refuted :
  fields_wf f100 = true /\ explicit (f_width f100) /\
  exists g a sa, impl_format_ttycap (on_tty true) Block rs21 f100 None = FOk g a sa
    /\ g_width g = 80
    /\ forall m, doc_interp (e_ts (on_tty true)) Block f100 None = Some m -> geom_ok m rs21 g = false.
Proof.
  split; [reflexivity|]. split; [split; [discriminate | reflexivity]|].
  eexists _, _, _. split; [vm_compute; reflexivity|]. split; [reflexivity|].
  intros m H. vm_compute in H. inversion H; subst m. vm_compute. reflexivity.
Qed.

(** * Non-vacuity: the hypotheses are satisfiable, on and off a terminal, and the explicit
    width 100 gives 100-column lines in an 80-column terminal *)
Example format_100_on_and_off_tty :
  forall b, exists a sa,
    impl_format (on_tty b) Block rs21 f100 None
    = FOk {| g_lines := 28; g_width := 100; g_top := 13; g_left := 49 |} a sa
    /\ impl_F (on_tty b) Block rs21 f100 None
       = Some {| g_lines := 28; g_width := 100; g_top := 13; g_left := 49 |}.
Proof. intros b. eexists _, _. destruct b; vm_compute; split; reflexivity. Qed.

(** the model of the code satisfies the hypothesis of section Conforming on well-formed
    fields (so the section is not vacuous) *)
Lemma impl_F_conforms : forall e sty rs f sf,
  1 <= cols (e_ts e) -> 3 <= lines (e_ts e) -> 1 <= rc rs -> 1 <= rl rs ->
  fields_wf f = true -> sf_ok sty sf = true ->
  match impl_F e sty rs f sf with
  | Some g => exists m, doc_interp (e_ts e) sty f sf = Some m /\ geom_ok m rs g = true
  | None => doc_interp (e_ts e) sty f sf = None
  end.
Proof.
  intros e sty rs f sf HC HL Hc Hl HF HS.
  pose proof (format_geometry_agrees e sty rs f sf HC HL Hc Hl HF HS) as G.
  unfold impl_F. destruct (impl_format e sty rs f sf) as [g a sa| |].
  - destruct G as (m & D & K & _). exists m. split; assumption.
  - exact G.
  - contradiction.
Qed.
