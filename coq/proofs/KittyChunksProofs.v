(** C03 — lemmas about model/KittyChunks.v (chunking, strips, geometry, round trip). *)
From Coq Require Import String.
From Coq Require Import List ZArith Bool Arith Lia.
Import ListNotations.
From TI Require Import gen.Consts model.KittyChunks.

Local Open Scope nat_scope.
Set Implicit Arguments.

(* ------------------------------------------------------------ list helpers *)

Lemma firstn_nil_iff : forall (A : Type) n (s : list A), 0 < n -> firstn n s = [] -> s = [].
Proof. intros A n s Hn H. destruct n; [lia|]. destruct s; [reflexivity|discriminate]. Qed.

Lemma nonempty_false : forall (A : Type) (l : list A), nonempty l = false <-> l = [].
Proof. intros A l; destruct l; simpl; split; congruence. Qed.

Lemma nonempty_true : forall (A : Type) (l : list A), nonempty l = true <-> l <> [].
Proof. intros A l; destruct l; simpl; split; congruence. Qed.

Lemma skipn_nonempty_len : forall (A : Type) n (s : list A), skipn n s <> [] -> n < length s.
Proof.
  intros A n s H. destruct (le_lt_dec (length s) n) as [Hle|]; [|assumption].
  rewrite skipn_all2 in H by assumption. congruence.
Qed.

Lemma firstn_nonempty_len : forall (A : Type) n (s : list A), firstn n s <> [] -> 0 < length s.
Proof. intros A n s H. destruct s; [rewrite firstn_nil in H; congruence|]. cbn [length]. lia. Qed.

(* ------------------------------------------------------------------ chunks *)

Section ChunkFacts.
  Variable C : Type.
  Implicit Types (s payload : list C).

  Definition shape (c : chunk C) : bool * bool * nat :=
    (chunk_first c, chunk_m c, length (chunk_data c)).

  (** all chunks but the last: exactly [size] characters and m=1; the last: at most
      [size] and m=0 *)
  Fixpoint framed (size : nat) (l : list (chunk C)) : Prop :=
    match l with
    | [] => False
    | c :: r =>
        match r with
        | [] => length (chunk_data c) <= size /\ chunk_m c = false
        | _ => length (chunk_data c) = size /\ chunk_m c = true /\ framed size r
        end
    end.

  Lemma framed_cons : forall size c r, r <> [] ->
    length (chunk_data c) = size -> chunk_m c = true -> framed size r -> framed size (c :: r).
  Proof. intros size c r Hr; destruct r; [congruence|]. simpl; auto. Qed.

  (** the readable form of [framed] *)
  Lemma framed_split : forall size l, framed size l ->
    exists init last, l = init ++ [last]
      /\ Forall (fun c => length (chunk_data c) = size /\ chunk_m c = true) init
      /\ length (chunk_data last) <= size /\ chunk_m last = false.
  Proof.
    induction l as [|c r IH]; simpl; [tauto|].
    destruct r as [|c' r'].
    - intros [H1 H2]. exists [], c. simpl; auto.
    - intros (H1 & H2 & H3). destruct (IH H3) as (init & last & E & F & L1 & L2).
      exists (c :: init), last. rewrite E. simpl; repeat split; auto.
  Qed.

  Lemma loop_concat : forall fuel size ch s, 0 < size -> length s <= fuel ->
    reassemble (chunk_loop fuel size ch (firstn size s) (skipn size s)) = ch ++ s.
  Proof.
    induction fuel as [|f IH]; intros size ch s Hs Hf.
    - assert (s = []) by (destruct s; simpl in *; [reflexivity|lia]). subst s.
      rewrite firstn_nil. rewrite app_nil_r.
      destruct ch; unfold reassemble; simpl; rewrite ?app_nil_r; reflexivity.
    - simpl. destruct (nonempty (firstn size s)) eqn:E.
      + unfold read. unfold reassemble in *. simpl.
        rewrite IH; [| assumption |].
        * now rewrite firstn_skipn.
        * apply nonempty_true in E. rewrite skipn_length.
          apply firstn_nonempty_len in E. lia.
      + apply nonempty_false in E. apply firstn_nil_iff in E; [|assumption]. subst s.
        rewrite app_nil_r. destruct ch; unfold reassemble; simpl; rewrite ?app_nil_r; reflexivity.
  Qed.

  Lemma chunks_concat : forall size payload, 0 < size ->
    reassemble (chunks size payload) = payload.
  Proof.
    intros size payload Hs. unfold chunks, read.
    change (reassemble ((true, nonempty (firstn size (skipn size payload)), firstn size payload)
              :: chunk_loop (length payload) size (firstn size (skipn size payload))
                   (firstn size (skipn size (skipn size payload)))
                   (skipn size (skipn size (skipn size payload)))) = payload).
    unfold reassemble. simpl. fold (reassemble (chunk_loop (length payload) size (firstn size (skipn size payload))
                   (firstn size (skipn size (skipn size payload)))
                   (skipn size (skipn size (skipn size payload))))).
    rewrite loop_concat; [| assumption |].
    - now rewrite !firstn_skipn.
    - rewrite !skipn_length. lia.
  Qed.

  Lemma loop_framed : forall fuel size ch s, 0 < size -> length s <= fuel ->
    ch <> [] -> length ch <= size -> (s <> [] -> length ch = size) ->
    let l := chunk_loop fuel size ch (firstn size s) (skipn size s) in
    framed size l /\ l <> [] /\ Forall (fun c => chunk_first c = false) l.
  Proof.
    induction fuel as [|f IH]; intros size ch s Hs Hf Hne Hle Hfull.
    - assert (s = []) by (destruct s; simpl in *; [reflexivity|lia]). subst s.
      rewrite firstn_nil. simpl. destruct ch; [congruence|]. simpl.
      repeat split; auto; congruence.
    - simpl. destruct (nonempty (firstn size s)) eqn:E.
      + unfold read.
        assert (Hs' : s <> []) by (intro; subst s; rewrite firstn_nil in E; discriminate).
        destruct (IH size (firstn size s) (skipn size s)) as (F & N & Fi); try assumption.
        * rewrite skipn_length. apply nonempty_true, firstn_nonempty_len in E. lia.
        * now apply nonempty_true.
        * rewrite firstn_length. lia.
        * intro Hk. apply skipn_nonempty_len in Hk. rewrite firstn_length. lia.
        * split; [|split].
          -- apply framed_cons; auto.
          -- discriminate.
          -- constructor; auto.
      + apply nonempty_false in E. apply firstn_nil_iff in E; [|assumption]. subst s.
        destruct ch; [congruence|]. simpl. repeat split; auto; congruence.
  Qed.

  Lemma loop_nil : forall fuel size rest, chunk_loop fuel size (@nil C) [] rest = [].
  Proof. destruct fuel; reflexivity. Qed.

  (** sizes and flags of [chunks] *)
  Lemma chunks_framed : forall size payload, 0 < size ->
    framed size (chunks size payload)
    /\ exists m d rest, chunks size payload = (true, m, d) :: rest
                        /\ Forall (fun c => chunk_first c = false) rest.
  Proof.
    intros size payload Hs. unfold chunks, read.
    set (r1 := skipn size payload). set (r2 := skipn size r1).
    destruct (nonempty (firstn size r1)) eqn:E.
    - apply nonempty_true in E.
      assert (Hr1 : r1 <> []) by (intro H; rewrite H, firstn_nil in E; congruence).
      destruct (@loop_framed (length payload) size (firstn size r1) r2) as (F & N & Fi); try assumption.
      + unfold r2, r1. rewrite !skipn_length. lia.
      + rewrite firstn_length. lia.
      + intro Hk. apply skipn_nonempty_len in Hk. rewrite firstn_length. lia.
      + split.
        * apply framed_cons; auto. simpl.
          apply skipn_nonempty_len in Hr1. rewrite firstn_length. lia.
        * do 3 eexists. split; [reflexivity|exact Fi].
    - apply nonempty_false in E. rewrite E.
      apply firstn_nil_iff in E; [|assumption].
      assert (r2 = []) by (unfold r2; rewrite E; apply skipn_nil). rewrite H.
      rewrite firstn_nil, loop_nil. split.
      + simpl. rewrite firstn_length. split; [lia|reflexivity].
      + do 3 eexists. split; [reflexivity|constructor].
  Qed.

  Lemma chunks_sizes : forall size payload, 0 < size ->
    exists init last, chunks size payload = init ++ [last]
      /\ Forall (fun c => length (chunk_data c) = size) init
      /\ length (chunk_data last) <= size.
  Proof.
    intros size payload Hs. destruct (chunks_framed payload Hs) as [F _].
    destruct (framed_split _ _ F) as (init & last & E & Fa & L & _).
    exists init, last. repeat split; auto.
    eapply Forall_impl; [|exact Fa]. simpl; tauto.
  Qed.

  (** one chunk, m=0, for every payload that fits — including the empty payload and a
      payload of exactly [size] characters *)
  Lemma chunks_small : forall size payload, length payload <= size ->
    chunks size payload = [(true, false, payload)].
  Proof.
    intros size payload H. unfold chunks, read.
    rewrite (skipn_all2 payload H), (firstn_all2 payload H).
    rewrite skipn_nil, !firstn_nil. simpl. now rewrite loop_nil.
  Qed.

  Lemma chunks_flags : forall size payload, 0 < size ->
    (exists m d rest, chunks size payload = (true, m, d) :: rest
                      /\ Forall (fun c => chunk_first c = false) rest)
    /\ (exists init last, chunks size payload = init ++ [last]
          /\ Forall (fun c => chunk_m c = true) init /\ chunk_m last = false)
    /\ (length payload <= size -> chunks size payload = [(true, false, payload)])
    /\ (size < length payload -> 2 <= length (chunks size payload)).
  Proof.
    intros size payload Hs. destruct (chunks_framed payload Hs) as [F Hd].
    split; [exact Hd|]. split; [|split].
    - destruct (framed_split _ _ F) as (init & last & E & Fa & _ & L).
      exists init, last. repeat split; auto. eapply Forall_impl; [|exact Fa]. simpl; tauto.
    - apply chunks_small.
    - intro Hlt. destruct (chunks size payload) as [|c [|c' r]] eqn:E; simpl in *; try lia; try tauto.
      pose proof (chunks_concat payload Hs) as Hc. rewrite E in Hc.
      unfold reassemble in Hc. simpl in Hc. rewrite app_nil_r in Hc.
      destruct F as [F _]. rewrite Hc in F. lia.
  Qed.

End ChunkFacts.

(* ---------------------------------------------------------- multiples of 4 *)

Section Mult4.
  Variable C : Type.

  Lemma divide_firstn : forall k n (s : list C), Nat.divide k n -> Nat.divide k (length s) ->
    Nat.divide k (length (firstn n s)).
  Proof.
    intros k n s Hn Hl. rewrite firstn_length.
    destruct (Nat.min_dec n (length s)) as [E|E]; rewrite E; assumption.
  Qed.

  Lemma divide_skipn : forall k n (s : list C), Nat.divide k n -> Nat.divide k (length s) ->
    Nat.divide k (length (skipn n s)).
  Proof. intros k n s Hn Hl. rewrite skipn_length. now apply Nat.divide_sub_r. Qed.

  Lemma loop_divide : forall k fuel size ch nx rest,
    Nat.divide k size -> Nat.divide k (length ch) -> Nat.divide k (length nx) ->
    Nat.divide k (length rest) ->
    Forall (fun c : chunk C => Nat.divide k (length (chunk_data c))) (chunk_loop fuel size ch nx rest).
  Proof.
    induction fuel as [|f IH]; intros size ch nx rest Hs Hc Hn Hr; simpl.
    - destruct (nonempty nx); [constructor|]. destruct (nonempty ch); repeat constructor; assumption.
    - destruct (nonempty nx).
      + constructor; [assumption|]. unfold read. apply IH; auto using divide_firstn, divide_skipn.
      + destruct (nonempty ch); repeat constructor; assumption.
  Qed.

  Lemma chunks_divide : forall k size (payload : list C),
    Nat.divide k size -> Nat.divide k (length payload) ->
    Forall (fun c => Nat.divide k (length (chunk_data c))) (chunks size payload).
  Proof.
    intros k size payload Hs Hp. unfold chunks, read. constructor.
    - simpl. now apply divide_firstn.
    - apply loop_divide; auto using divide_firstn, divide_skipn.
  Qed.

  Lemma chunks_mult4 : forall size (payload : list C),
    size mod 4 = 0 -> length payload mod 4 = 0 ->
    Forall (fun c => length (chunk_data c) mod 4 = 0) (chunks size payload).
  Proof.
    intros size payload Hs Hp.
    apply Nat.mod_divide in Hs; [|discriminate]. apply Nat.mod_divide in Hp; [|discriminate].
    eapply Forall_impl; [|apply (chunks_divide _ Hs Hp)].
    intros c H. apply Nat.mod_divide; [discriminate|exact H].
  Qed.
End Mult4.

(* ------------------------------------------------------------------ strips *)

Section StripFacts.
  Variable B : Type.

  Lemma strips_from_stitch : forall n bpl (s : list B), length s = n * bpl ->
    concat (strips_from n bpl s) = s
    /\ Forall (fun x => length x = bpl) (strips_from n bpl s)
    /\ length (strips_from n bpl s) = n.
  Proof.
    induction n as [|k IH]; intros bpl s H; simpl in *.
    - destruct s; [auto|discriminate].
    - destruct (IH bpl (skipn bpl s)) as (E & F & L).
      + rewrite skipn_length. lia.
      + rewrite E, firstn_skipn. repeat split; auto.
        constructor; auto. rewrite firstn_length. lia.
  Qed.

  Lemma strips_stitch : forall (raw : list B) bpl n, 0 < n -> length raw = n * bpl ->
    concat (strips raw bpl n) = raw
    /\ Forall (fun x => length x = bpl) (strips raw bpl n)
    /\ length (strips raw bpl n) = n.
  Proof.
    intros raw bpl n Hn H. destruct n as [|k]; [lia|].
    unfold strips. replace (S k - 1) with k by lia.
    exact (strips_from_stitch (S k) bpl raw H).
  Qed.
End StripFacts.

(* ---------------------------------------------------------------- geometry *)

Lemma lines_geometry : forall width height r_h cell_h bpp,
  0 < r_h -> height = r_h * cell_h ->
  cell_height height r_h = cell_h
  /\ bytes_per_line width height r_h bpp = width * cell_h * bpp
  /\ bytes_per_line width height r_h bpp * r_h = width * height * bpp.
Proof.
  intros width height r_h cell_h bpp Hr ->. unfold bytes_per_line, cell_height.
  rewrite (Nat.mul_comm r_h cell_h), Nat.div_mul by lia.
  repeat split; ring.
Qed.

(** the [s] and [v] keys of a LINES strip describe exactly one strip: s*v*bpp = bpl *)
Lemma lines_keys : forall fmt width height rw rh z level,
  Z.eqb fmt kitty_f_png = false ->
  let c := kitty_ctrl Lines fmt width height rw rh z level in
  k_s c = kint width /\ k_v c = kint (cell_height height rh) /\ k_r c = kint 1 /\ k_c c = kint rw
  /\ width * cell_height height rh * bpp_of_fmt fmt = bytes_per_line width height rh (bpp_of_fmt fmt).
Proof. intros. subst c. unfold kitty_ctrl. rewrite H. simpl. repeat split. Qed.

Lemma whole_keys : forall fmt width height rw rh z level,
  Z.eqb fmt kitty_f_png = false ->
  let c := kitty_ctrl Whole fmt width height rw rh z level in
  k_s c = kint width /\ k_v c = kint height /\ k_r c = kint rh /\ k_c c = kint rw.
Proof. intros. subst c. unfold kitty_ctrl. rewrite H. simpl. repeat split. Qed.

(** the render size used by LINES is a whole number of cells, so the hypothesis of
    [lines_geometry] holds for what the code computes *)
Lemma lines_pixel_size : forall rw rh cw ch os,
  pixel_size Lines rw rh cw ch os = (rw * cw, rh * ch).
Proof. reflexivity. Qed.

(** WHOLE never transmits more pixels than the source has, nor than the render needs *)
Lemma whole_pixel_size : forall rw rh cw ch os,
  let p := pixel_size Whole rw rh cw ch os in
  (p = os \/ p = render_size rw rh cw ch)
  /\ fst p * snd p <= fst os * snd os
  /\ fst p * snd p <= (rw * cw) * (rh * ch).
Proof.
  intros. subst p. unfold pixel_size, minimal_render_size, render_size. cbn [fst snd].
  destruct (Nat.ltb_spec (rw * cw * (rh * ch)) (fst os * snd os)); cbn [fst snd];
    repeat split; auto; lia.
Qed.

Lemma size_ok :
  (0 <? kitty_chunk_size) && (kitty_chunk_size <=? 4096) && (kitty_chunk_size mod 4 =? 0) = true.
Proof. vm_compute. reflexivity. Qed.

Lemma keys_ok :
  kitty_keys = ["a"; "f"; "t"; "s"; "v"; "z"; "o"; "C"; "c"; "r"]%string
  /\ k_a ctrl_default = Some (KChr 84) /\ k_t ctrl_default = Some (KChr 100)
  /\ k_C ctrl_default = Some (KInt 1)
  /\ kitty_f_rgb = 24%Z /\ kitty_f_rgba = 32%Z /\ kitty_o_zlib = 122%Z.
Proof. vm_compute. repeat split. Qed.

(* -------------------------------------------------------------- round trip *)

Section RoundTrip.
  Variables B C : Type.
  Variable b64 : list B -> list C.
  Variable unb64 : list C -> list B.
  Variable zl : nat -> list B -> list B.
  Variable unzl : list B -> list B.
  Hypothesis b64_roundtrip : forall x, unb64 (b64 x) = x.
  Hypothesis zl_roundtrip : forall l x, unzl (zl l x) = x.
  Hypothesis b64_len4 : forall x, length (b64 x) mod 4 = 0.

  Lemma emit_data : forall size c (p : list C), 0 < size ->
    concat (map (@item_data C) (emit_transmission size c p)) = p.
  Proof.
    intros size c p Hs. unfold emit_transmission. rewrite map_map. simpl.
    exact (chunks_concat p Hs).
  Qed.

  Lemma emit_first_keys : forall size c (p : list C),
    first_keys (emit_transmission size c p) = ctrl_items c.
  Proof. intros. unfold emit_transmission, chunks, read. reflexivity. Qed.

  Lemma has_o_key : forall m fmt width height rw rh z level,
    has_key "o"%string (ctrl_items (kitty_ctrl m fmt width height rw rh z level)) = negb (level =? 0).
  Proof.
    intros. unfold kitty_ctrl, ctrl_items.
    destruct (Z.eqb fmt kitty_f_png); destruct (level =? 0); destruct m; reflexivity.
  Qed.

  Lemma transmit_roundtrip : forall size m fmt width height rw rh z level data, 0 < size ->
    receive unb64 unzl
      (transmit b64 zl size (kitty_ctrl m fmt width height rw rh z level) level data) = data.
  Proof.
    intros. unfold receive, transmit. rewrite emit_first_keys, has_o_key, emit_data by assumption.
    rewrite b64_roundtrip. unfold maybe_compress.
    destruct (level =? 0); simpl; auto.
  Qed.

  (** LINES: the strips received one by one stitch back to the whole raw image *)
  Lemma lines_roundtrip : forall size fmt width height rw rh z level (raw : list B),
    0 < size -> 0 < rh -> length raw = rh * bytes_per_line width height rh (bpp_of_fmt fmt) ->
    let c := kitty_ctrl Lines fmt width height rw rh z level in
    concat (map (fun strip => receive unb64 unzl (transmit b64 zl size c level strip))
                (strips raw (bytes_per_line width height rh (bpp_of_fmt fmt)) rh)) = raw.
  Proof.
    intros size fmt width height rw rh z level raw Hs Hr Hl c.
    rewrite (map_ext _ (fun x => x)).
    - rewrite map_id. now apply strips_stitch.
    - intro strip. now apply transmit_roundtrip.
  Qed.

  (** every chunk of a real transmission is at most [size] base64 characters and a
      multiple of 4 *)
  Lemma transmit_chunks_mult4 : forall size level data, size mod 4 = 0 ->
    Forall (fun c => length (chunk_data c) mod 4 = 0)
           (chunks size (b64 (maybe_compress zl level data))).
  Proof. intros. apply chunks_mult4; auto. Qed.

  (** iterm2: the first two header parts are [size=] and the length of the decoded
      payload, in each of the three (translated) headers *)
  Lemma iterm2_size_key : forall b cols rows konsole (data : list B),
    let (h, p) := iterm2_emit b64 b cols rows konsole data in
    exists rest, h = VLit "size="%string :: VNum (length (unb64 p)) :: rest.
  Proof.
    intros. unfold iterm2_emit. rewrite b64_roundtrip.
    destruct b; eexists; reflexivity.
  Qed.
End RoundTrip.

(** the translated iterm2 headers, read as key/value lists *)
Lemma iterm2_header_shape : forall size cols rows (konsole : bool),
  let dn := if konsole then [VLit ";doNotMoveCursor=1"%string] else [] in
  iterm2_header BWhole size cols rows konsole =
    [VLit "size="%string; VNum size; VLit ";width="%string; VNum cols; VLit ";height="%string;
     VNum rows; VLit ";preserveAspectRatio=0;inline=1"%string] ++ dn ++ [VLit ":"%string]
  /\ iterm2_header BNative size cols rows konsole = iterm2_header BWhole size cols rows konsole
  /\ iterm2_header BLines size cols rows konsole =
    [VLit "size="%string; VNum size; VLit ";width="%string; VNum cols;
     VLit ";height=1;preserveAspectRatio=0;inline=1"%string] ++ dn ++ [VLit ":"%string].
Proof. intros. destruct konsole; repeat split. Qed.

(** decision rules of the iterm2 renderer *)
Lemma anim_falls_back_to_whole : forall animated frame,
  iterm2_branch Anim animated frame = (if animated && negb frame then BNative else BWhole)
  /\ (frame = true \/ animated = false -> iterm2_branch Anim animated frame = BWhole).
Proof.
  intros animated frame. unfold iterm2_branch. simpl. split.
  - destruct animated, frame; reflexivity.
  - intros [-> | ->]; try destruct animated; try destruct frame; reflexivity.
Qed.

(** with the fall-back statement in the source, a non-native ANIM render is a WHOLE render
    in every respect (branch, resolution, read-from-file); without it only the branch *)
Lemma effective_method_spec : forall m animated frame,
  iterm2_effective_method m animated frame =
    (if iterm2_anim_falls_back && method_eqb m Anim && negb (animated && negb frame)
     then Whole else m).
Proof.
  intros m animated frame. unfold iterm2_effective_method, iterm2_branch.
  destruct iterm2_anim_falls_back, m, animated, frame; reflexivity.
Qed.

Lemma read_from_file_gate_spec : forall rff animated readable m oa ra mc alpha,
  read_from_file_gate rff animated readable m oa ra mc alpha = true ->
  rff = true /\ animated = false /\ readable = true /\ m = Whole /\ oa <= ra.
Proof.
  intros rff animated readable m oa ra mc alpha H. unfold read_from_file_gate in H.
  repeat (apply andb_prop in H; destruct H as [H ?]).
  destruct m; try discriminate. destruct animated; try discriminate.
  destruct rff; try discriminate. destruct readable; try discriminate.
  match goal with X : (oa <=? ra) = true |- _ => apply Nat.leb_le in X end. auto.
Qed.

(* ------------------------------------------------------------ non-vacuity *)

Example chunks_three : chunks 4 [1;2;3;4;5;6;7;8;9] =
  [(true, true, [1;2;3;4]); (false, true, [5;6;7;8]); (false, false, [9])].
Proof. reflexivity. Qed.
Example chunks_exact_multiple : chunks 4 [1;2;3;4;5;6;7;8] =
  [(true, true, [1;2;3;4]); (false, false, [5;6;7;8])].
Proof. reflexivity. Qed.
Example chunks_exact_one : chunks 4 [1;2;3;4] = [(true, false, [1;2;3;4])].
Proof. reflexivity. Qed.
Example chunks_empty : chunks 4 (@nil nat) = [(true, false, [])].
Proof. reflexivity. Qed.
Example strips_example : strips [1;2;3;4;5;6] 2 3 = [[1;2];[3;4];[5;6]].
Proof. reflexivity. Qed.
Example lines_geometry_nonvacuous :
  cell_height (3 * 20) 3 = 20 /\ bytes_per_line 10 (3 * 20) 3 4 * 3 = 10 * (3 * 20) * 4.
Proof. vm_compute. split; reflexivity. Qed.
(** the codec hypotheses are satisfiable (identity-like codecs on a 4-periodic carrier) *)
Example codec_hyps_satisfiable :
  exists (b64 : list nat -> list (list nat)) unb64,
    (forall x, unb64 (b64 x) = x) /\ (forall x, length (b64 x) mod 4 = 0).
Proof.
  exists (fun x => [x; x; x; x]), (fun l => match l with x :: _ => x | [] => [] end).
  split; reflexivity.
Qed.
