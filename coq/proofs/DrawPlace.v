(** C06, kitty <= 0.25.0: after an old-API animation no placement of an earlier frame is
    left on the screen.  [KittyImage._display_animated] transmits every frame on the
    z-index reserved for animations ([- 2^31], whatever z-index the caller asked for) and
    [_clear_frame()] deletes exactly that z-index before every later frame: the placements
    left ([lib/TermPlace.v]) are those of the last frame alone — for every frame list. *)
From Coq Require Import List ZArith Bool Lia.
Import ListNotations.
From TI Require Import lib.Term lib.TermFacts lib.Rect lib.Lines lib.TermScroll lib.TermPlace
     model.Padding model.GfxRender proofs.PadProofs proofs.GfxRect model.Draw
     proofs.DrawLines proofs.DrawProofs proofs.DrawProofsOld.
Open Scope Z_scope.
Local Arguments Z.eqb : simpl never.
Local Arguments Z.ltb : simpl never.
Local Arguments Z.leb : simpl never.

(** the z-index of animation frames and of [_clear_frame()]'s delete *)
Definition anim_z : Z := kitty_anim_z.

(** every placement a line makes is on z-index [z0] *)
Definition ZOnly (z0 : Z) (ln : list tok) : Prop := forall r c, imgs_z z0 (cevs ln r c) = true.

Lemma imgs_z_fill z0 fill rho c a n : imgs_z z0 (fill_evs fill rho c a n) = true.
Proof.
  destruct fill as [g|]; cbn [fill_evs].
  - generalize (Z.to_nat n) as k. intros k. revert c. induction k as [|k IH]; intros c; [reflexivity|].
    cbn [TermFacts.text_evs imgs_z forallb]. apply IH.
  - destruct (0 <? n); reflexivity.
Qed.

Lemma imgs_z_jl z0 lm : forall Ls rho,
  (forall k L, nth_error Ls k = Some L -> imgs_z z0 (cevs L (rho + Z.of_nat k) lm) = true) ->
  imgs_z z0 (jl_evs lm rho Ls) = true.
Proof.
  induction Ls as [|L rest IH]; intros rho Hk; [reflexivity|].
  pose proof (Hk 0%nat L eq_refl) as H0. replace (rho + Z.of_nat 0) with rho in H0 by lia.
  destruct rest as [|L2 rest'].
  - exact H0.
  - rewrite jl_evs_cons2, imgs_z_app, H0. cbn [andb imgs_z forallb].
    apply (IH (rho + 1)). intros k L' Hn.
    replace (rho + 1 + Z.of_nat k) with (rho + Z.of_nat (S k)) by lia. apply Hk. exact Hn.
Qed.

Lemma imgs_z_padded z0 fill w h l t r b ls lm rho :
  LinesRect all_cells w h ls -> 0 <= l -> 0 <= r ->
  (forall ln, In ln ls -> ZOnly z0 ln) ->
  imgs_z z0 (jl_evs lm rho (pad_lines fill (l, t, r, b) w ls)) = true.
Proof.
  intros HLR Hl Hr HZ. pose proof (lr_w _ _ _ _ HLR) as Hw.
  apply imgs_z_jl. intros k L Hk.
  destruct (PL_nth fill w h l t r b ls k L Hk) as [[-> _]|(i & x & -> & Hx & ->)].
  - rewrite cevs_fill by lia. apply imgs_z_fill.
  - destruct (ls_line w h ls HLR i x Hx) as (HL & Hnc & _).
    rewrite (cevs_wrap fill w h l r Hl Hr x _ _ lm HL Hnc), !imgs_z_app, !imgs_z_fill.
    rewrite (HZ x (nth_error_In _ _ Hx)). reflexivity.
Qed.

(** the kitty render models make all their placements on the z-index they are given *)
Lemma imgs_z_erase z r a : forall n c0, imgs_z z (erase_evs r c0 a n) = true.
Proof. induction n as [|n IH]; intros c0; [reflexivity|apply IH]. Qed.

Lemma kitty_trans_zonly w z mix blend rows pl : 0 < w ->
  ZOnly z (kdel blend ++ transmission {| kk_cols := w; kk_rows := rows; kk_z := z; kk_stay := true |} pl
           ++ kfill w mix).
Proof.
  intros Hw r c. unfold cevs. erewrite exec_mk_evs.
  2:{ rewrite exec_app, exec_kdel by reflexivity. rewrite exec_app.
      rewrite exec_transmission by (try split; reflexivity).
      rewrite (exec_kfill w mix Hw) by reflexivity. rewrite !mk_mk. reflexivity. }
  cbn [row col sgr mk pos set_pos origin kk_rows kk_cols kk_z].
  rewrite !imgs_z_app.
  assert (E1 : imgs_z z (if blend then [] else [EDel DelCursor r c]) = true) by (destruct blend; reflexivity).
  assert (E2 : imgs_z z [EImg r c rows w z] = true) by (cbn [imgs_z forallb]; rewrite Z.eqb_refl; reflexivity).
  assert (E3 : imgs_z z (if mix then [] else erase_evs r c adefault (Z.to_nat w)) = true)
    by (destruct mix; [reflexivity|apply imgs_z_erase]).
  rewrite E1, E2, E3. reflexivity.
Qed.

Lemma kfill_zonly w z mix : 0 < w -> ZOnly z (kfill w mix).
Proof.
  intros Hw r c. unfold cevs. erewrite exec_mk_evs by (apply (exec_kfill w mix Hw); reflexivity).
  cbn [row col sgr pos set_pos origin]. rewrite imgs_z_app.
  destruct mix; [reflexivity|]. rewrite imgs_z_erase. reflexivity.
Qed.

Theorem kitty_frames_zonly w h z mix blend : 0 < w ->
  (forall pls ln, In ln (map (kitty_line w z mix blend) pls) -> ZOnly z ln)
  /\ (forall pl ln, In ln (kitty_whole_ls w h z mix blend pl) -> ZOnly z ln).
Proof.
  intros Hw. split.
  - intros pls ln Hin. apply in_map_iff in Hin. destruct Hin as (pl & <- & _).
    apply kitty_trans_zonly, Hw.
  - intros pl ln [<-|Hin]; [apply kitty_trans_zonly, Hw|].
    apply repeat_spec in Hin. subst ln. apply kfill_zonly, Hw.
Qed.

(** ** the events of the whole old-API stream *)
Lemma old_total_evs lm t0 tty B r0 rho c a EV :
  okat t0 r0 lm ->
  (forall s0, okat s0 r0 lm -> exec lm s0 B = mk rho c a s0 EV) ->
  exec_evs lm t0 (opt tty THide ++ B ++ [TSgr0] ++ opt tty TShow ++ [TLF]) = EV ++ [EMove (rho + 1) lm].
Proof.
  intros Hok HB. pose proof Hok as ([Hg Hp] & Hs & Hr & Hc).
  destruct (exec_opt_vis lm t0 tty THide false Hg (or_introl (conj eq_refl eq_refl))) as (X1 & X2 & _).
  set (th := if tty then set_visible t0 false else t0) in *.
  assert (Hokh : okat th r0 lm) by (unfold th; destruct tty; [repeat split; assumption|exact Hok]).
  assert (Hclh : clean th) by apply Hokh.
  pose proof (HB th Hokh) as E. set (s1 := mk rho c a th EV) in *.
  assert (E2 : exec lm s1 [TSgr0] = mk rho c adefault th EV).
  { cbn [exec fold_left]. rewrite step_sgr0 by apply Hclh. unfold s1. rewrite mk_mk, app_nil_r. reflexivity. }
  set (s2 := mk rho c adefault th EV) in *.
  destruct (exec_opt_vis lm s2 tty TShow true (proj1 Hclh) (or_intror (conj eq_refl eq_refl))) as (Y1 & Y2 & _).
  set (s3 := if tty then set_visible s2 true else s2) in *.
  assert (Hg3 : parser s3 = Ground) by (unfold s3; destruct tty; apply Hclh).
  assert (Hrow3 : row s3 = rho) by (unfold s3; destruct tty; reflexivity).
  rewrite exec_evs_app, X2, X1, exec_evs_app, (exec_mk_evs _ _ _ _ _ _ _ E), E. fold s1.
  rewrite exec_evs_app, E2. fold s2. rewrite exec_evs_app, Y2, Y1. fold s3.
  assert (E0 : exec_evs lm s1 [TSgr0] = []).
  { cbn [exec_evs]. unfold step_evs. replace (parser s1) with Ground by (symmetry; apply Hclh). reflexivity. }
  rewrite E0. cbn [exec_evs app]. unfold step_evs. rewrite Hg3. cbn [ground_evs]. rewrite Hrow3, app_nil_r.
  reflexivity.
Qed.

Section KittyOld.
Variable lm : Z.
Variable g : glyph.
Variables w h pl pt pr pb : Z.
Hypothesis Hpl : 0 <= pl.
Hypothesis Hpt : 0 <= pt.
Hypothesis Hpr : 0 <= pr.
Hypothesis Hpb : 0 <= pb.
Let pw := pl + w + pr.
Let ph := pt + h + pb.
Let d := (pl, pt, pr, pb).
Let PLof := fun ls : list (list tok) => pad_lines (Some g) d w ls.
Let Pof := fun ls : list (list tok) => pad (Some g) d w (joinlf ls).
Variable r0 : Z.

Let fev := fun ls : list (list tok) => jl_evs lm r0 (PLof ls) ++ goto_evs lm (r0 + ph - 1) (ph - 1) 0.

(** events of the later frames: the delete by z-index, the frame, back to the top *)
Definition kev (rest : list (list (list tok))) : list ev :=
  concat (map (fun ls => EDel (DelZ anim_z) r0 lm :: fev ls) rest).

Lemma klater_exec : forall rest s,
  Forall (LinesRect all_cells w h) rest -> okat s r0 lm ->
  exec lm s (concat (map (fun ls => kitty_clear true ++ old_frame ph (Pof ls)) rest))
  = mk r0 lm adefault s (kev rest).
Proof.
  induction rest as [|ls rest IH]; intros s HF Hok.
  - cbn. destruct Hok as (_ & Hs & Hr & Hc). rewrite <- Hs, <- Hr, <- Hc. symmetry. apply mk_id.
  - inversion HF as [|? ? HLR HF']; subst. assert (Hcl : clean s) by apply Hok.
    cbn [map concat kev]. rewrite <- app_assoc, exec_app.
    assert (E1 : exec lm s (kitty_clear true) = mk r0 lm adefault s [EDel (DelZ anim_z) r0 lm]).
    { destruct Hok as ([Hg Hp] & Hs & Hr & Hc). cbn [kitty_clear exec fold_left]. unfold step.
      rewrite Hg. cbn [step_ground]. unfold emit, mk. cbn. rewrite Hs, Hr, Hc. reflexivity. }
    rewrite E1, exec_app.
    destruct (old_frame_exec lm g w h pl pt pr pb Hpl Hpt Hpr Hpb ls (mk r0 lm adefault s [EDel (DelZ anim_z) r0 lm]) r0 HLR (okat_mk _ _ _ _ Hcl)) as (E2 & _).
    fold d ph in E2. fold (Pof ls) (PLof ls) in E2. fold (fev ls) in E2.
    rewrite E2, mk_mk. rewrite (IH _ HF' (okat_mk _ _ _ _ Hcl)). rewrite mk_mk.
    reflexivity.
Qed.

Lemma goto_inert r n m L : live_from L (goto_evs lm r n m) = L.
Proof.
  apply live_from_inert. unfold goto_evs, cuu_evs. cbn [fill_evs].
  destruct (0 <? n); destruct (0 <? m); reflexivity.
Qed.

Lemma fev_live ls L : live_from L (fev ls) = live_from L (jl_evs lm r0 (PLof ls)).
Proof. unfold fev. rewrite live_from_app, goto_inert. reflexivity. Qed.

(** the loop invariant on placements: whatever was placed before on the animation's
    z-index is gone after the clearing, so only the last frame's placements are left *)
Theorem kev_live : forall rest L,
  all_z anim_z L = true ->
  (forall ls, In ls rest -> imgs_z anim_z (jl_evs lm r0 (PLof ls)) = true) ->
  live_from L (kev rest) =
    match lastopt rest with None => L | Some ls => live (jl_evs lm r0 (PLof ls)) end.
Proof.
  induction rest as [|ls rest IH]; intros L HL HZ; [reflexivity|].
  unfold kev. cbn [map concat]. fold (kev rest).
  change (EDel (DelZ anim_z) r0 lm :: fev ls) with ([EDel (DelZ anim_z) r0 lm] ++ fev ls).
  rewrite <- app_assoc, live_from_app.
  assert (E1 : live_from L [EDel (DelZ anim_z) r0 lm] = []) by (apply delz_clears, HL).
  rewrite E1, live_from_app, fev_live.
  assert (HL' : all_z anim_z (live_from [] (jl_evs lm r0 (PLof ls))) = true).
  { apply live_from_all_z; [reflexivity|]. apply HZ. left. reflexivity. }
  rewrite (IH _ HL'); [|intros ls' Hin; apply HZ; right; exact Hin].
  destruct rest as [|ls2 rest']; [reflexivity|].
  change (lastopt (ls :: ls2 :: rest')) with (lastopt (ls2 :: rest')).
  destruct (lastopt (ls2 :: rest')) eqn:El; [reflexivity|].
  apply lastopt_none in El. discriminate.
Qed.
End KittyOld.

(** MAIN: kitty <= 0.25.0, any first frame and any list of later frames whose placements
    are all on the animation z-index: after [draw()] the placements on the screen are
    exactly those of the padded last frame drawn alone from the start position *)
Theorem old_animate_no_stale lm W' H' (ha va : nat) w h (tty : bool)
        (ls1 : list (list tok)) (lss : list (list (list tok))) t0 :
  LinesRect all_cells w h ls1 -> Forall (LinesRect all_cells w h) lss ->
  (forall ln, In ln ls1 -> ZOnly anim_z ln) ->
  Forall (fun ls => forall ln, In ln ls -> ZOnly anim_z ln) lss ->
  okat t0 (row t0) lm ->
  let fmt := fun ls => format_render W' H' ha va w h (joinlf ls) in
  live (exec_evs lm t0 (old_anim_stream tty (Z.max H' h) [] (kitty_clear true) (fmt ls1) (map fmt lss)))
  = live (exec_evs lm t0 (fmt (lastframe ls1 lss))).
Proof.
  intros HLR1 HFs HZ1 HZs Hok fmt. set (r0 := row t0) in *.
  pose proof (old_dims_spec W' H' ha va w h) as Sd. unfold fmt, format_render.
  destruct (old_dims W' H' ha va w h) as [[[pl pt] pr] pb].
  destruct Sd as (Hpl & Hpt & Hpr & Hpb & Ew & Eh). rewrite <- Eh.
  set (ph := pt + h + pb). set (Pof := fun ls => pad (Some GSpace) (pl, pt, pr, pb) w (joinlf ls)).
  set (PLof := fun ls => pad_lines (Some GSpace) (pl, pt, pr, pb) w ls).
  assert (Hh : 0 < h).
  { pose proof (lr_len _ _ _ _ HLR1) as Hlen. pose proof (lr_ne _ _ _ _ HLR1).
    destruct ls1; [congruence|cbn [length] in Hlen; lia]. }
  assert (HLRn : LinesRect all_cells w h (lastframe ls1 lss)).
  { unfold lastframe. destruct (lastopt lss) eqn:E; [|exact HLR1].
    apply lastopt_in in E. exact (proj1 (Forall_forall _ _) HFs _ E). }
  (* the reference *)
  destruct (first_box lm (Some GSpace) w h pl pt pr pb Hpl Hpt Hpr Hpb _ HLRn t0 r0 Hok) as [Er _].
  rewrite (exec_mk_evs _ _ _ _ _ _ _ Er).
  (* the stream *)
  set (EV := (jl_evs lm r0 (PLof ls1) ++ goto_evs lm (r0 + ph - 1) (ph - 1) 0)
             ++ kev lm GSpace w h pl pt pr pb r0 lss ++ cud_evs r0 lm (ph - 1)).
  assert (HB : forall s0, okat s0 r0 lm ->
             exec lm s0 (old_anim_body ph [] (kitty_clear true) (Pof ls1) (map Pof lss))
             = mk (r0 + (ph - 1)) lm adefault s0 EV).
  { intros s0 Hok0. assert (Hcl : clean s0) by apply Hok0.
    unfold old_anim_body. cbn [app]. rewrite exec_app.
    destruct (old_frame_exec lm GSpace w h pl pt pr pb Hpl Hpt Hpr Hpb ls1 s0 r0 HLR1 Hok0) as (E1 & _).
    fold ph in E1. fold (Pof ls1) (PLof ls1) in E1. rewrite E1, exec_app, map_map.
    rewrite (klater_exec lm GSpace w h pl pt pr pb Hpl Hpt Hpr Hpb r0 lss _ HFs (okat_mk _ _ _ _ Hcl)).
    rewrite (exec_cud lm _ (ph - 1)); [|apply Hcl|unfold ph; lia].
    cbn [row col sgr mk]. rewrite !mk_mk. unfold EV. rewrite <- !app_assoc. reflexivity. }
  unfold old_anim_stream. fold (Pof ls1).
  rewrite (old_total_evs lm t0 tty _ r0 _ _ _ EV Hok HB).
  unfold live, EV. rewrite !live_from_app.
  rewrite goto_inert.
  assert (HZ1' : imgs_z anim_z (jl_evs lm r0 (PLof ls1)) = true)
    by (apply (imgs_z_padded anim_z (Some GSpace) w h pl pt pr pb ls1 lm r0 HLR1 Hpl Hpr HZ1)).
  rewrite (kev_live lm GSpace w h pl pt pr pb r0 lss).
  2:{ apply live_from_all_z; [reflexivity|exact HZ1']. }
  2:{ intros ls Hin.
      apply (imgs_z_padded anim_z (Some GSpace) w h pl pt pr pb ls lm r0
               (proj1 (Forall_forall _ _) HFs _ Hin) Hpl Hpr (proj1 (Forall_forall _ _) HZs _ Hin)). }
  rewrite (live_from_inert _ (cud_evs r0 lm (ph - 1)))
    by (unfold cud_evs; destruct (0 <? ph - 1); reflexivity).
  rewrite (live_from_inert _ [EMove _ _]) by reflexivity.
  unfold lastframe. destruct (lastopt lss); reflexivity.
Qed.
