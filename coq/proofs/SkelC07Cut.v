(** C07, control-flow half: EVERY interrupted render-output write of the Renderable API is
    followed by the interrupt handler -- for KeyboardInterrupt AND for an Exception raised by
    the write / flush (as the old API's `except (KeyboardInterrupt, Exception)` does);
    [SkelC07.v] has the KeyboardInterrupt-only statement.

    NOTE: holds once [Renderable.draw] / [_animate_] call [_handle_interrupted_draw_] for an
    Exception too (pending fix C07_renderable_handler_on_exception); on a tree where only
    KeyboardInterrupt is handled [analyze] computes [false] (an OSError raised by a frame write
    leaves the cut frame unhandled) and this file does not compile -- the intended report. *)
From Coq Require Import List Bool Arith.
Import ListNotations.
From TI Require Import lib.Eff lib.EffSound lib.EffRun gen.Skeletons proofs.SkelC07.

Lemma draw_cut_analysis_all :
  analyze cfg_draw nv_Renderable_draw (protect sk_Renderable_draw) (fun _ s => negb (cut s)) = true.
Proof. vm_compute. reflexivity. Qed.

Lemma draw_handles_cut_frames_all :
  forall vs, length vs = nv_Renderable_draw ->
  forall o s', eval cfg_draw false (protect sk_Renderable_draw) (init vs) o s' -> cut s' = false.
Proof.
  intros vs Hl o s' He. apply negb_true_iff.
  exact (analyze_sound _ _ _ _ draw_cut_analysis_all vs Hl o s' He).
Qed.

(** the same for [_animate_] alone *)
Lemma animate_cut_analysis_all :
  analyze cfg_draw nv_Renderable__animate_ (protect sk_Renderable__animate_) (fun _ s => negb (cut s)) = true.
Proof. vm_compute. reflexivity. Qed.

Lemma animate_handles_cut_frames_all :
  forall vs, length vs = nv_Renderable__animate_ ->
  forall o s', eval cfg_draw false (protect sk_Renderable__animate_) (init vs) o s' -> cut s' = false.
Proof.
  intros vs Hl o s' He. apply negb_true_iff.
  exact (analyze_sound _ _ _ _ animate_cut_analysis_all vs Hl o s' He).
Qed.

(** the analysis rejects "handler for KeyboardInterrupt only" *)
Example analysis_rejects_ki_only_handler :
  analyze cfg_draw 0
    (TryExcept true (sq [Op (Write WFrame); Op Flush]) CYes (sq [Op HandleInterrupt; Raise KI]) CNo Skip)
    (fun _ s => negb (cut s)) = false.
Proof. vm_compute. reflexivity. Qed.
