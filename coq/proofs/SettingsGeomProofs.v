(** Proofs about [model/SettingsGeom.v] (C20): the render method actually used does not
    depend on the GEOMETRY of the render (one line, one column, many), the payload every
    render transmits is the documented payload of the documented method, and LINES and
    WHOLE are observationally distinguishable on a one-line render exactly when the
    original pixel size differs from the render's pixel size (or the file is sent
    verbatim). *)
From Coq Require Import List ZArith Bool Arith Lia.
Import ListNotations.
From TI Require Import model.Settings model.SettingsRender model.SettingsRoute model.SettingsGeom
     proofs.SettingsProofs proofs.SettingsRenderProofs.
Local Arguments Nat.eqb : simpl never.
Open Scope Z_scope.

(** *** the method used is not a function of the geometry *)

Theorem method_used_independent_of_geometry s eff ov animated frame size limit f g f' g' :
  used (fst (render_geom s eff ov animated frame size limit f g))
  = used (fst (render_geom s eff ov animated frame size limit f' g'))
  /\ used (fst (render_geom s eff ov animated frame size limit f g))
     = doc_used (match ov with Some m => m | None => eff end) animated frame.
Proof.
  unfold render_geom. cbn [fst]. split; [reflexivity|apply render_used_doc].
Qed.

(** *** the payload is the documented one *)

Lemma minimal_is_doc g : minimal_size g = doc_whole_size g.
Proof.
  unfold minimal_size, doc_whole_size.
  rewrite Z.ltb_antisym.
  destruct (area (ori_size g) <=? area (render_size g)); reflexivity.
Qed.

Lemma lines_cell_height g :
  repeat (fst (render_size g), snd (render_size g) / Z.of_nat (height_lines g), false)
         (height_lines g)
  = repeat (width_cols g * cell_w g, cell_h g, false) (height_lines g).
Proof.
  destruct (height_lines g) as [|n] eqn:E; [reflexivity|].
  unfold render_size. rewrite E. cbn [fst snd].
  rewrite (Z.mul_comm (Z.of_nat (S n)) (cell_h g)), Z.div_mul by lia. reflexivity.
Qed.

Theorem payload_is_documented s m f g :
  valid_method m -> render_payload s m f g = doc_payload s m f g.
Proof.
  intros [ -> | [ -> | -> ] ]; unfold render_payload, doc_payload, doc_whole_verbatim.
  - change (LINES =? ANIM) with false. change (LINES =? WHOLE) with false.
    change (LINES =? LINES) with true. cbv iota.
    rewrite !andb_false_r. destruct s; cbn [andb]; cbv iota; apply lines_cell_height.
  - change (WHOLE =? ANIM) with false. change (WHOLE =? WHOLE) with true.
    change (WHOLE =? LINES) with false. cbv iota.
    rewrite minimal_is_doc.
    destruct s; [reflexivity|].
    rewrite andb_true_r.
    destruct (p_rff f && negb (p_animated f) && p_readable f) eqn:E1; cbn [andb];
      [|reflexivity].
    unfold doc_whole_size.
    destruct (area (ori_size g) <=? area (render_size g)); reflexivity.
  - reflexivity.
Qed.

Theorem render_geom_documented s eff ov animated frame size limit f g :
  valid_method (used (render_used eff ov animated frame size limit)) ->
  snd (render_geom s eff ov animated frame size limit f g)
  = doc_payload s (doc_used (match ov with Some m => m | None => eff end) animated frame) f g.
Proof.
  intros H. unfold render_geom. cbn [snd].
  rewrite payload_is_documented by exact H. rewrite render_used_doc. reflexivity.
Qed.

(** *** when LINES and WHOLE can be told apart *)

Lemma repeat_singleton {A} (x y : A) n : repeat x n = [y] <-> n = 1%nat /\ x = y.
Proof.
  split.
  - destruct n as [|[|n]]; cbn; intros H; try discriminate.
    injection H as ->. auto.
  - intros [-> ->]. reflexivity.
Qed.

(** the documented payloads of LINES and WHOLE coincide exactly on a one-line render that
    is not sent verbatim and whose WHOLE size is the render's pixel size *)
Theorem lines_whole_same_iff s f g :
  doc_payload s LINES f g = doc_payload s WHOLE f g
  <-> height_lines g = 1%nat /\ doc_whole_verbatim s f g = false
      /\ doc_whole_size g = render_size g.
Proof.
  unfold doc_payload.
  change (LINES =? LINES) with true. change (WHOLE =? LINES) with false.
  change (WHOLE =? ANIM) with false. cbv iota.
  rewrite repeat_singleton.
  split.
  - intros [Hn H]. injection H as Hw Hh Hv.
    repeat split; auto.
    unfold render_size. rewrite Hn. rewrite Z.mul_1_l, Hw, Hh.
    destruct (doc_whole_size g); reflexivity.
  - intros [Hn [Hv Hsz]]. split; [exact Hn|].
    rewrite Hv, Hsz. unfold render_size. rewrite Hn, Z.mul_1_l. reflexivity.
Qed.

(** ... so, for an original that is not larger than the render (the WHOLE method then
    transmits it at its original size), a one-line render tells the methods apart iff the
    original pixel size differs from the render's pixel size or the file goes out verbatim *)
Theorem one_line_distinguishable s f g :
  height_lines g = 1%nat ->
  area (ori_size g) <= area (render_size g) ->
  (doc_payload s LINES f g <> doc_payload s WHOLE f g
   <-> ori_size g <> render_size g \/ doc_whole_verbatim s f g = true).
Proof.
  intros Hn Hfit.
  assert (Hsz : doc_whole_size g = ori_size g).
  { unfold doc_whole_size. apply Z.leb_le in Hfit. rewrite Hfit. reflexivity. }
  rewrite lines_whole_same_iff, Hsz.
  split.
  - intros H. destruct (doc_whole_verbatim s f g); [right; reflexivity|left].
    intros E. apply H. auto.
  - intros [H|H] [_ [Hv E]]; [exact (H E)|congruence].
Qed.

(** renders of two or more lines always tell them apart *)
Theorem many_lines_distinguishable s f g :
  height_lines g <> 1%nat -> doc_payload s LINES f g <> doc_payload s WHOLE f g.
Proof. intros H E. apply lines_whole_same_iff in E. tauto. Qed.

(** *** histories *)

Section Histories.
Variable k : kind.
Variable par : nat -> nat.
Hypothesis Hwf : wf_par par.
Variable icls : nat -> nat.
Variable src : sources.
Variable s : rstyle.
Variable facts : nat -> pfacts.

(** every render of every history, whatever its geometry, reports what the documented rule
    says and transmits the documented payload of that method *)
Theorem gtrace_spec h :
  (forall r, In r (rtrace k par icls src (rinit k) (map to_rop h)) -> valid_method (used r)) ->
  gtrace s k par icls src facts h = spec_gtrace s k par icls src facts h.
Proof.
  intros Hv. unfold gtrace, spec_gtrace.
  rewrite <- (rtrace_spec k par Hwf icls src).
  apply map_ext_in. intros [r [i g]] Hin.
  unfold with_payload. cbn [fst snd]. f_equal.
  apply payload_is_documented, Hv. exact (in_combine_l _ _ _ _ Hin).
Qed.

(** the methods the renders of a history use do not depend on the geometries the
    requests carry *)
Theorem gtrace_methods_independent_of_geometry h h' :
  map to_rop h = map to_rop h' ->
  length (gtrace s k par icls src facts h) = length (gtrace s k par icls src facts h') ->
  map fst (gtrace s k par icls src facts h) = map fst (gtrace s k par icls src facts h').
Proof.
  intros E _. unfold gtrace. rewrite !map_map. rewrite <- E.
  assert (L : length (render_geoms h) = length (render_geoms h')).
  { assert (G : forall l, length (render_geoms l)
                          = length (filter (fun o => match o with RRender _ _ _ => true | _ => false end)
                                           (map to_rop l))).
    { induction l as [|o l IH]; [reflexivity|].
      destruct o; cbn [render_geoms flat_map map to_rop filter app length] in *;
        fold (render_geoms l); rewrite ?IH; reflexivity. }
    rewrite !G, E. reflexivity. }
  revert L. generalize (render_geoms h) (render_geoms h').
  generalize (rtrace k par icls src (rinit k) (map to_rop h)).
  induction l as [|r l IH]; intros [|a la] [|b lb] L; cbn in *; try discriminate; try reflexivity.
  f_equal. apply IH. lia.
Qed.

End Histories.

(** *** the excluded design is refuted: a one-line render that takes the WHOLE path *)

Definition ex_geom : geom :=
  {| height_lines := 1; width_cols := 8; cell_w := 10; cell_h := 20; ori_w := 4; ori_h := 2 |}.
Definition ex_facts : pfacts := {| p_animated := false; p_rff := false; p_readable := false |}.

Theorem oneline_whole_refuted :
  exists s eff ov f g,
    height_lines g = 1%nat
    /\ used (fst (render_geom_oneline s eff ov false false 0 0 f g))
       <> doc_used (match ov with Some m => m | None => eff end) false false
    /\ snd (render_geom_oneline s eff ov false false 0 0 f g)
       <> doc_payload s (doc_used (match ov with Some m => m | None => eff end) false false) f g.
Proof.
  exists SITerm2, WHOLE, (Some LINES), ex_facts, ex_geom.
  split; [reflexivity|]. split; vm_compute; discriminate.
Qed.

(** with two lines the excluded design and the code agree (the breakage is confined to the
    boundary geometry) *)
Theorem oneline_design_other_heights s eff ov animated frame size limit f g :
  height_lines g <> 1%nat ->
  render_geom_oneline s eff ov animated frame size limit f g
  = render_geom s eff ov animated frame size limit f g.
Proof.
  intros H. unfold render_geom_oneline, render_geom.
  apply Nat.eqb_neq in H. rewrite H, andb_false_r.
  destruct (render_used eff ov animated frame size limit); reflexivity.
Qed.

(** non-vacuity: a history with one-line, one-column and two-line requests *)
Definition ex_ghist : list geop :=
  [GRender 0 None false ex_geom;
   GMeth (ClsSet 0 WHOLE);
   GRender 0 None false ex_geom;
   GRender 0 (Some LINES) false
           {| height_lines := 2; width_cols := 1; cell_w := 10; cell_h := 20; ori_w := 4; ori_h := 2 |}].

Example ex_gtrace :
  map snd (gtrace SITerm2 (k_render_method 3) (parf [0%nat]) (parf [0%nat])
                  {| s_animated := fun _ => false; s_size := fun _ => 0 |}
                  (fun _ => ex_facts) ex_ghist)
  = [[(80, 20, false)]; [(4, 2, false)]; [(10, 20, false); (10, 20, false)]].
Proof. vm_compute. reflexivity. Qed.
