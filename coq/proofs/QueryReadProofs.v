(** C12 — proofs about the read loop, the drain and [query] of model/Query.v. *)
From Coq Require Import Ascii String List ZArith Bool Arith Lia.
Import ListNotations.
From TI Require Import model.Query.
Open Scope Z_scope.

(** ** the clock-free reader: what a reader with no deadline would take from a byte stream *)

Fixpoint first_done (more : list byte -> bool) (acc rest : list byte) : list byte * list byte :=
  if more acc then
    match rest with
    | [] => (acc, [])
    | b :: r => first_done more (acc ++ [b]) r
    end
  else (acc, rest).

Definition prefix {A} (q p : list A) : Prop := exists r, p = q ++ r.
Definition strict_prefix {A} (q p : list A) : Prop := exists r, r <> [] /\ p = q ++ r.

(** declarative characterisation: the result is the shortest prefix on which [more] is
    false (the whole stream if there is none) *)
Lemma first_done_spec more : forall rest acc p r,
  first_done more acc rest = (p, r) ->
  acc ++ rest = p ++ r /\
  (exists d, p = acc ++ d) /\
  (forall q, prefix acc q -> strict_prefix q p -> more q = true) /\
  (more p = false \/ r = []).
Proof.
  induction rest as [|b rest IH]; intros acc p r H; cbn in H.
  - assert (p = acc /\ r = []) as [-> ->] by (destruct (more acc); inversion H; auto).
    repeat split; auto.
    + exists []; now rewrite app_nil_r.
    + intros q [d1 ->] [d2 [Hne E]]. rewrite <- app_assoc in E.
      rewrite <- (app_nil_r acc) in E at 1. apply app_inv_head in E.
      destruct d1, d2; cbn in E; try discriminate; congruence.
  - destruct (more acc) eqn:Em.
    + apply IH in H. destruct H as (E & (d & Ed) & Hall & Hend).
      rewrite <- app_assoc in E; cbn in E. repeat split; auto.
      * exists (b :: d). rewrite Ed, <- app_assoc. reflexivity.
      * intros q [d1 Eq] Hs. destruct d1 as [|x d1].
        -- rewrite app_nil_r in Eq; subst q; exact Em.
        -- apply Hall; auto. subst q. destruct Hs as [d2 [Hne E2]].
           rewrite Ed in E2. rewrite <- !app_assoc in E2. apply app_inv_head in E2.
           cbn in E2. inversion E2; subst x. exists d1. now rewrite <- app_assoc.
    + inversion H; subst p r. repeat split; auto.
      * exists []; now rewrite app_nil_r.
      * intros q [d1 ->] [d2 [Hne E]]. rewrite <- app_assoc in E.
        rewrite <- (app_nil_r acc) in E at 1. apply app_inv_head in E.
        destruct d1, d2; cbn in E; try discriminate; congruence.
Qed.

Lemma first_done_length more : forall rest acc,
  (length acc <= length (fst (first_done more acc rest)))%nat /\
  (length (fst (first_done more acc rest)) <= length acc + length rest)%nat.
Proof.
  induction rest as [|b rest IH]; intros acc; cbn.
  - destruct (more acc); cbn; lia.
  - destruct (more acc); cbn; [|lia].
    specialize (IH (acc ++ [b])). rewrite app_length in IH. cbn in IH. lia.
Qed.

(** ** the timed loop *)

Section Loop.
Variable cost : nat -> Z.
Variable c : Z.
Hypothesis cost_bounded : forall i, 0 <= cost i <= c.
Variable more : list byte -> bool.
Variable timeout : Z.

Lemma c_nonneg : 0 <= c.
Proof. specialize (cost_bounded O); lia. Qed.

(** Every arrival is at or before [B], the clock is at most [B], and [B] plus one step per
    byte is before the deadline: the loop is the clock-free reader. *)
Lemma read_loop_untimed : forall pend i start now0 input B,
  Forall (fun a => fst a <= B) pend ->
  now0 <= B ->
  B + c * Z.of_nat (length pend) < start + timeout ->
  let fd := first_done more input (map snd pend) in
  let k := (length (fst fd) - length input)%nat in
  exists t i',
    read_loop cost more timeout pend i start now0 input = (fst fd, skipn k pend, t, i') /\
    map snd (skipn k pend) = snd fd /\
    (more (fst fd) = false -> now0 <= t <= B + c * Z.of_nat k) /\
    (more (fst fd) = true -> skipn k pend = [] /\ start + timeout <= t <= start + timeout + c).
Proof.
  pose proof c_nonneg as Hc.
  induction pend as [|[t b] rest IH]; intros i start now0 input B HF Hnow HB; cbn zeta.
  - cbn [read_loop map first_done length].
    assert (Hlt : now0 - start <? timeout = true) by (apply Z.ltb_lt; cbn in HB; lia).
    rewrite Hlt. cbn [andb].
    destruct (more input) eqn:Em; cbn [fst snd]; rewrite Nat.sub_diag; cbn [skipn].
    + eexists _, _; split; [reflexivity|]. split; [reflexivity|].
      split; [congruence|]. intros _; split; [reflexivity|]. specialize (cost_bounded i); lia.
    + eexists _, _; split; [reflexivity|]. split; [reflexivity|].
      split; [intros _; cbn; lia | congruence].
  - cbn [read_loop map first_done snd].
    inversion HF as [|? ? Ht HF']; subst. cbn [fst] in Ht.
    cbn [length] in HB. rewrite Nat2Z.inj_succ in HB.
    assert (Hlt : now0 - start <? timeout = true) by (apply Z.ltb_lt; nia).
    rewrite Hlt. cbn [andb].
    destruct (more input) eqn:Em.
    + assert (Htl : t <? start + timeout = true) by (apply Z.ltb_lt; nia).
      rewrite Htl.
      assert (HF'' : Forall (fun a => fst a <= B + c) rest)
        by (eapply Forall_impl; [|exact HF']; cbn; intros; lia).
      specialize (IH (S i) start (Z.max now0 t + cost i) (input ++ [b]) (B + c) HF'').
      pose proof (cost_bounded i) as Hci.
      destruct IH as (t' & i' & E & Em' & Hf & Ht'); [lia | nia |].
      set (fd := first_done more (input ++ [b]) (map snd rest)) in *.
      pose proof (first_done_length more (map snd rest) (input ++ [b])) as [L1 L2].
      fold fd in L1, L2. rewrite app_length in L1, L2. cbn [length] in L1, L2.
      assert (Ek : (length (fst fd) - length input)%nat
                   = S (length (fst fd) - length (input ++ [b]))%nat)
        by (rewrite app_length; cbn [length]; lia).
      rewrite Ek. cbn [skipn]. rewrite app_length in E, Em', Hf, Ht' |- *.
      cbn [length] in E, Em', Hf, Ht' |- *.
      exists t', i'. split; [exact E|]. split; [exact Em'|]. split.
      * intros H; specialize (Hf H). rewrite Nat2Z.inj_succ. nia.
      * exact Ht'.
    + cbn [fst snd]. rewrite Nat.sub_diag. cbn [skipn map snd].
      eexists _, _; split; [reflexivity|]. split; [reflexivity|].
      split; [intros _; cbn; lia | congruence].
Qed.

(** read_times_out: nothing arrives before the deadline -> nothing is read, the queue is
    untouched, and the call returns at the deadline, at most one step later *)
Lemma read_times_out_lemma : forall pend i start,
  Forall (fun a => start + timeout <= fst a) pend ->
  0 < timeout -> more [] = true ->
  exists t,
    read_loop cost more timeout pend i start start [] = ([], pend, t, S i) /\
    start + timeout <= t <= start + timeout + c.
Proof.
  intros pend i start HF Hto Hm. pose proof (cost_bounded i).
  destruct pend as [|[t b] rest]; cbn [read_loop].
  - replace (start - start <? timeout) with true by (symmetry; apply Z.ltb_lt; lia).
    rewrite Hm. cbn [andb]. eexists; split; [reflexivity|lia].
  - replace (start - start <? timeout) with true by (symmetry; apply Z.ltb_lt; lia).
    rewrite Hm. cbn [andb]. inversion HF; subst. cbn [fst] in *.
    replace (t <? start + timeout) with false by (symmetry; apply Z.ltb_ge; lia).
    eexists; split; [reflexivity|lia].
Qed.

(** whatever arrives, whenever: the loop never runs past the deadline by more than one step *)
Lemma read_loop_bounded : forall pend i start now0 input,
  now0 <= start + timeout + c ->
  let '(_, _, t, _) := read_loop cost more timeout pend i start now0 input in
  now0 <= t <= start + timeout + c.
Proof.
  pose proof c_nonneg as Hc.
  induction pend as [|[t b] rest IH]; intros i start now0 input Hn; cbn [read_loop].
  - destruct (now0 - start <? timeout) eqn:El; cbn [andb]; [|lia].
    apply Z.ltb_lt in El. destruct (more input); [|lia].
    pose proof (cost_bounded i). lia.
  - destruct (now0 - start <? timeout) eqn:El; cbn [andb]; [|lia].
    apply Z.ltb_lt in El. destruct (more input); [|lia].
    pose proof (cost_bounded i).
    destruct (t <? start + timeout) eqn:Et; [|lia].
    apply Z.ltb_lt in Et.
    specialize (IH (S i) start (Z.max now0 t + cost i) (input ++ [b])).
    destruct (read_loop cost more timeout rest (S i) start (Z.max now0 t + cost i) (input ++ [b]))
      as [[[? ?] t'] ?].
    lia.
Qed.

(** the loop only ever takes bytes from the front of the queue, in order *)
Lemma read_loop_takes_prefix : forall pend i start now0 input,
  let '(inp, rest, _, _) := read_loop cost more timeout pend i start now0 input in
  exists k, inp = input ++ map snd (firstn k pend) /\ rest = skipn k pend.
Proof.
  induction pend as [|[t b] rest IH]; intros i start now0 input; cbn [read_loop].
  - destruct ((now0 - start <? timeout) && more input);
      exists O; cbn; now rewrite app_nil_r.
  - destruct ((now0 - start <? timeout) && more input).
    + destruct (t <? start + timeout).
      * specialize (IH (S i) start (Z.max now0 t + cost i) (input ++ [b])).
        destruct (read_loop cost more timeout rest (S i) start (Z.max now0 t + cost i) (input ++ [b]))
          as [[[inp r] t'] i'].
        destruct IH as (k & -> & ->). exists (S k). cbn. now rewrite <- app_assoc.
      * exists O; cbn; now rewrite app_nil_r.
    + exists O; cbn; now rewrite app_nil_r.
Qed.

(** the clock only moves forward, and every byte taken had arrived by the time the loop
    returned *)
Lemma read_loop_times : forall pend i start now0 input,
  let '(_, rest, t, _) := read_loop cost more timeout pend i start now0 input in
  now0 <= t /\ (length rest <= length pend)%nat /\
  Forall (fun a => fst a <= t) (firstn (length pend - length rest) pend).
Proof.
  induction pend as [|[t b] rest0 IH]; intros i start now0 input; cbn [read_loop].
  - destruct (now0 - start <? timeout) eqn:El; cbn [andb].
    + apply Z.ltb_lt in El. pose proof (cost_bounded i).
      destruct (more input); cbn; repeat split; auto; lia.
    + cbn; repeat split; auto; lia.
  - destruct (now0 - start <? timeout) eqn:El; cbn [andb].
    2:{ rewrite Nat.sub_diag. cbn. repeat split; auto; lia. }
    apply Z.ltb_lt in El. pose proof (cost_bounded i).
    destruct (more input).
    2:{ rewrite Nat.sub_diag. cbn. repeat split; auto; lia. }
    destruct (t <? start + timeout) eqn:Et.
    2:{ rewrite Nat.sub_diag. cbn [firstn]. repeat split; auto; lia. }
    specialize (IH (S i) start (Z.max now0 t + cost i) (input ++ [b])).
    destruct (read_loop cost more timeout rest0 (S i) start (Z.max now0 t + cost i) (input ++ [b]))
      as [[[inp r] t'] i'].
    destruct IH as (Ht & Hl & HF). split; [lia|]. split; [cbn [length]; lia|].
    cbn [length]. replace (S (length rest0) - length r)%nat with (S (length rest0 - length r)) by lia.
    cbn [firstn]. constructor; [cbn; lia|exact HF].
Qed.

(** ** the drain *)

Lemma take_while_all {A} (p : A -> bool) l : Forall (fun x => p x = true) l -> take_while p l = l.
Proof. induction 1; cbn; [reflexivity|]. rewrite H. now f_equal. Qed.

Lemma skipn_add {A} : forall k2 k (l : list A), skipn k2 (skipn k l) = skipn (k + k2) l.
Proof.
  intros k2 k; induction k as [|k IH]; intros l; [reflexivity|].
  destruct l; cbn; [now rewrite skipn_nil|]. apply IH.
Qed.

Lemma take_while_length {A} (p : A -> bool) l : (length (take_while p l) <= length l)%nat.
Proof. induction l; cbn; [lia|]. destruct (p a); cbn; lia. Qed.

Lemma drain_loop_all : forall fuel pend i now0 input,
  (length pend < fuel)%nat ->
  Forall (fun a => fst a <= now0) pend ->
  exists t i', drain_loop cost fuel pend i now0 input = (input ++ map snd pend, [], t, i') /\
               now0 <= t <= now0 + c * (Z.of_nat (length pend) + 1).
Proof.
  pose proof c_nonneg as Hc.
  induction fuel as [|f IH]; intros pend i now0 input Hl HF; [lia|].
  cbn [drain_loop]. unfold arrived.
  rewrite take_while_all by (eapply Forall_impl; [|exact HF]; cbn; intros; now apply Z.leb_le).
  pose proof (cost_bounded i) as Hci.
  destruct pend as [|a rest].
  - cbn. rewrite app_nil_r. eexists _, _; split; [reflexivity|lia].
  - cbn [length]. set (n := S (length rest)). set (k := Nat.min 100 n).
    assert (Hk : (1 <= k <= n)%nat) by (unfold k, n; lia).
    destruct (IH (skipn k (a :: rest)) (S i) (now0 + cost i)
                 (input ++ map snd (firstn k (a :: rest)))) as (t & i' & E & Ht).
    + rewrite skipn_length. cbn [length] in *. fold n. lia.
    + apply Forall_forall. intros x Hx. rewrite Forall_forall in HF.
      assert (In x (a :: rest)).
      { rewrite <- (firstn_skipn k (a :: rest)). apply in_or_app; now right. }
      specialize (HF x H). lia.
    + exists t, i'. split.
      * etransitivity; [exact E|]. rewrite <- app_assoc, <- map_app, firstn_skipn. reflexivity.
      * rewrite skipn_length in Ht. cbn [length] in Ht. fold n in Ht.
        assert (Z.of_nat (n - k) <= Z.of_nat n - 1) by lia. fold n. nia.
Qed.

Lemma drain_all : forall pend i now0,
  Forall (fun a => fst a <= now0) pend ->
  exists t i', drain cost pend i now0 = (map snd pend, [], t, i') /\
               now0 <= t <= now0 + c * (Z.of_nat (length pend) + 1).
Proof.
  intros. unfold drain. destruct (drain_loop_all (S (length pend)) pend i now0 [])
    as (t & i' & E & Ht); auto. exists t, i'. split; auto.
Qed.

(** the drain never takes a byte that has not arrived and never blocks: it only moves
    bytes from the front of the queue *)
Lemma drain_loop_takes_prefix : forall fuel pend i now0 input,
  let '(inp, rest, _, _) := drain_loop cost fuel pend i now0 input in
  exists k, inp = input ++ map snd (firstn k pend) /\ rest = skipn k pend.
Proof.
  induction fuel as [|f IH]; intros pend i now0 input; cbn [drain_loop].
  - exists O; cbn; now rewrite app_nil_r.
  - destruct (arrived now0 pend) as [|n'] eqn:Ea.
    + exists O; cbn; now rewrite app_nil_r.
    + set (k := Nat.min 100 (S n')).
      specialize (IH (skipn k pend) (S i) (now0 + cost i) (input ++ map snd (firstn k pend))).
      destruct (drain_loop cost f (skipn k pend) (S i) (now0 + cost i)
                           (input ++ map snd (firstn k pend))) as [[[inp r] t'] i'].
      destruct IH as (k2 & -> & ->). exists (k + k2)%nat. split.
      * rewrite <- app_assoc, <- map_app. do 2 f_equal.
        rewrite <- (firstn_skipn k pend) at 3.
        assert (Hk : (k <= length pend)%nat).
        { unfold k, arrived in *. clear -Ea.
          pose proof (take_while_length (fun a : Z * byte => fst a <=? now0) pend) as H. rewrite Ea in H. apply Nat.le_trans with (S n'); [apply Nat.le_min_r | exact H]. }
        rewrite firstn_app, firstn_firstn.
        replace (Nat.min (k + k2) k) with k by lia.
        rewrite firstn_length. replace (k + k2 - Nat.min k (length pend))%nat with k2 by lia.
        reflexivity.
      * apply skipn_add.
Qed.

End Loop.
