(** Control-flow (effect skeleton) obligations of C07 for the old image API
    ([BaseImage.draw] with its inner [render()], [_renderer], [_display_animated]).
    Lemmas only.  Same conventions as [SkelC07.v] ([cfg_draw], [protect]).

    NOTE: [old_draw_analysis] holds only once HIDE_CURSOR is printed inside the [try] of
    the inner [render()] (pending fix C07_hide_cursor, DESIGN 6/F6): on a tree where it is
    printed before the [try], [analyze] computes [false] (a fault at that very write leaves
    the cursor hidden) and this file does not compile -- which is the intended report. *)
From Coq Require Import List Bool Arith.
Import ListNotations.
From TI Require Import lib.Eff lib.EffSound lib.EffRun gen.Skeletons proofs.SkelC07.

(** at exit of the old draw(): cursor shown again (when the output is a terminal), size
    setting and seek position as found, frame iterator closed, every cut frame write
    followed by the interrupt handler (KeyboardInterrupt and Exception alike), a still image
    propagates KeyboardInterrupt, an animation swallows it (unless it hit the HIDE_CURSOR
    write that precedes the animation) *)
Definition old_draw_post (o : outcome) (s : st) : bool :=
  negb (hidden s) && negb (szmod s) && negb (skmod s) && negb (iter_open s) && negb (cut s)
  && (get fv_BaseImage_draw__animation (vars s) || negb (kiseen s) || is_ki o)
  && (negb (get fv_BaseImage_draw__animation (vars s)) || get fv_BaseImage_draw__sys_stdout_isatty (vars s)
      || negb (is_ki o)).

Lemma old_draw_analysis : analyze cfg_draw nv_BaseImage_draw (protect sk_BaseImage_draw) old_draw_post = true.
Proof. vm_compute. reflexivity. Qed.

Lemma old_draw_cleans :
  forall vs, length vs = nv_BaseImage_draw ->
  forall o s', eval cfg_draw false (protect sk_BaseImage_draw) (init vs) o s' -> old_draw_post o s' = true.
Proof. exact (analyze_sound _ _ _ _ old_draw_analysis). Qed.

Lemma old_draw_cleans_facts :
  forall vs, length vs = nv_BaseImage_draw ->
  forall o s', eval cfg_draw false (protect sk_BaseImage_draw) (init vs) o s' ->
    hidden s' = false /\ szmod s' = false /\ skmod s' = false /\ iter_open s' = false /\ cut s' = false /\
    (get fv_BaseImage_draw__animation (vars s') = false -> kiseen s' = true -> o = ORaise KI) /\
    (get fv_BaseImage_draw__animation (vars s') = true ->
     get fv_BaseImage_draw__sys_stdout_isatty (vars s') = false -> o <> ORaise KI).
Proof.
  intros vs Hl o s' He. pose proof (old_draw_cleans vs Hl o s' He) as H. unfold old_draw_post in H.
  destruct (hidden s'), (szmod s'), (skmod s'), (iter_open s'), (cut s'), (kiseen s'),
    (get fv_BaseImage_draw__animation (vars s')), (get fv_BaseImage_draw__sys_stdout_isatty (vars s')), o as [| |[|]];
    simpl in H; try discriminate H;
    repeat split; intros; try reflexivity; try discriminate; try congruence.
Qed.

(** the inner render() alone (what [_renderer] calls back) *)
Definition old_render_post (o : outcome) (s : st) : bool :=
  negb (hidden s) && negb (skmod s) && negb (iter_open s) && negb (cut s).
Lemma old_render_analysis :
  analyze cfg_draw nv_BaseImage_draw_render (protect sk_BaseImage_draw_render) old_render_post = true.
Proof. vm_compute. reflexivity. Qed.
Lemma old_render_cleans :
  forall vs, length vs = nv_BaseImage_draw_render ->
  forall o s', eval cfg_draw false (protect sk_BaseImage_draw_render) (init vs) o s' -> old_render_post o s' = true.
Proof. exact (analyze_sound _ _ _ _ old_render_analysis). Qed.

(** [_display_animated]: KeyboardInterrupt swallowed, iterator closed, the image handed in
    closed, seek position restored, cut frames handled *)
Definition display_animated_post (o : outcome) (s : st) : bool :=
  negb (is_ki o) && negb (skmod s) && negb (iter_open s) && imgs_closed s && negb (cut s).
Lemma display_animated_analysis :
  analyze cfg_draw nv_BaseImage__display_animated (protect sk_BaseImage__display_animated) display_animated_post = true.
Proof. vm_compute. reflexivity. Qed.
Lemma display_animated_cleans :
  forall vs, length vs = nv_BaseImage__display_animated ->
  forall o s', eval cfg_draw false (protect sk_BaseImage__display_animated) (init vs) o s' ->
    o <> ORaise KI /\ skmod s' = false /\ iter_open s' = false /\ imgs_closed s' = true /\ cut s' = false.
Proof.
  intros vs Hl o s' He. pose proof (analyze_sound _ _ _ _ display_animated_analysis vs Hl o s' He) as H.
  unfold display_animated_post in H.
  repeat (apply andb_true_iff in H; destruct H as [H ?]).
  repeat match goal with Hx : negb _ = true |- _ => apply negb_true_iff in Hx end.
  repeat split; try assumption. intros ->. discriminate.
Qed.

(** the two [_handle_interrupted_draw]s only write and flush *)
Lemma handlers_harmless :
  analyze cfg_draw 0 sk_KittyImage__handle_interrupted_draw (fun _ s => all_clean s) = true /\
  analyze cfg_draw 0 sk_ITerm2Image__handle_interrupted_draw (fun _ s => all_clean s) = true.
Proof. vm_compute. auto. Qed.

(** non-vacuity: an interrupted still draw in which the cursor had been hidden *)
Example old_draw_interrupted_witness :
  witness cfg_draw KI true hidden (fun s => negb (hidden s)) (ORaise KI) (protect sk_BaseImage_draw)
          (repeat true nv_BaseImage_draw) 120 = true
  \/ witness cfg_draw KI true hidden (fun s => negb (hidden s)) ONorm (protect sk_BaseImage_draw)
          (repeat true nv_BaseImage_draw) 120 = true.
Proof. vm_compute. auto. Qed.
