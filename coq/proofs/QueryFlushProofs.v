(** C12 — proofs about the position of the discard of unread input relative to the write of the
    request (model/QueryFlush.v):
      * [flush_before] (the code) IS [QueryInit.query_A always_flush], for every getter;
      * hence the end-to-end theorems hold for replies that arrive at ANY point after the
        request has been written — delay 0 (the instant write_tty() returns, before the
        library's next step) included —, from every initial queue content and attribute set;
      * [flush_after_write] discards every reply that arrives in the window between the write
        and the flush ([flush_after_write_loses_window]: the query comes back empty after the
        whole timeout) and is refuted on a concrete terminal that answers at once. *)
From Coq Require Import Ascii String List ZArith Bool Arith Lia.
Import ListNotations.
From TI Require Import model.Query model.QuerySpec model.QueryInit model.QueryFlush
  proofs.QueryReadProofs proofs.QueryGetProofs proofs.QueryEndProofs proofs.QueryInitProofs.
Open Scope Z_scope.

Section Before.
Variable cost : nat -> Z.
Variable cfg : config.
Variable term : terminal.

Lemma query_F_before more request s :
  query_F cost cfg term flush_before more request s
  = query_A cost cfg term always_flush more request s.
Proof.
  unfold query_F, query_A, always_flush. destruct (enabled cfg); cbn [negb]; [|reflexivity].
  destruct (timed_read_A cost more (qtimeout cfg) _) as [inp s2]. reflexivity.
Qed.

Lemma two_phase_F_before request s :
  two_phase_F cost cfg term flush_before request s = two_phase_A cost cfg term always_flush request s.
Proof. unfold two_phase_F, two_phase_A. now rewrite query_F_before. Qed.

Lemma get_fg_bg_F_before s :
  get_fg_bg_F cost cfg term flush_before s = get_fg_bg_A cost cfg term always_flush s.
Proof. unfold get_fg_bg_F, get_fg_bg_A. now rewrite two_phase_F_before. Qed.

Lemma get_name_version_F_before s :
  get_name_version_F cost cfg term flush_before s = get_name_version_A cost cfg term always_flush s.
Proof. unfold get_name_version_F, get_name_version_A. now rewrite two_phase_F_before. Qed.

Lemma get_cell_size_F_before c0 s :
  get_cell_size_F cost cfg term flush_before c0 s = get_cell_size_A cost cfg term always_flush c0 s.
Proof. unfold get_cell_size_F, get_cell_size_A. now rewrite query_F_before. Qed.

Lemma cached_name_version_F_before w :
  cached_name_version_F cost cfg term flush_before w = cached_name_version_A cost cfg term always_flush w.
Proof. unfold cached_name_version_F, cached_name_version_A. now rewrite get_name_version_F_before. Qed.

Lemma kitty_is_supported_F_before w :
  kitty_is_supported_F cost cfg term flush_before w = kitty_is_supported_A cost cfg term always_flush w.
Proof.
  unfold kitty_is_supported_F, kitty_is_supported_A. rewrite cached_name_version_F_before.
  destruct (cached_name_version_A cost cfg term always_flush w) as [nv w1].
  now rewrite query_F_before.
Qed.

Lemma iterm2_is_supported_F_before w :
  iterm2_is_supported_F cost cfg term flush_before w = iterm2_is_supported_A cost cfg term always_flush w.
Proof. unfold iterm2_is_supported_F, iterm2_is_supported_A. now rewrite cached_name_version_F_before. Qed.

Lemma auto_image_class_F_before w :
  auto_image_class_F cost cfg term flush_before w = auto_image_class_A cost cfg term always_flush w.
Proof.
  unfold auto_image_class_F, auto_image_class_A. rewrite kitty_is_supported_F_before.
  destruct (kitty_is_supported_A cost cfg term always_flush w) as [k w1].
  now rewrite iterm2_is_supported_F_before.
Qed.

End Before.

(** ** end to end, for replies arriving at any point after the request is written *)
Section AnyPoint.
Variable cost : nat -> Z.
Variable c : Z.
Hypothesis cost_bounded : forall i, 0 <= cost i <= c.
Variable cfg : config.
Hypothesis Hen : enabled cfg = true.
Hypothesis Hto : 0 < qtimeout cfg.
Variable p : profile.
Hypothesis Hwf : wf_profile p = true.
Variable delays : list byte -> list Z.
Let term := profile_terminal p delays.

Lemma fg_bg_reports_profile_any_point s D :
  arrived_all (core s) -> timely c cfg term FGBG_request D ->
  exists s',
    get_fg_bg_F cost cfg term flush_before s = (Some (exp_fg_bg cfg p), s') /\
    pend (core s') = [] /\ attr s' = attr s /\
    written (core s') = written (core s) ++ [FGBG_request] /\
    now (core s) <= now (core s') <= now (core s) + qtimeout cfg
      + c * (Z.of_nat (length (stream (term FGBG_request))) + 4).
Proof.
  intros Ha Ht. rewrite get_fg_bg_F_before.
  exact (fg_bg_reports_profile_init cost c cost_bounded cfg Hen Hto p Hwf delays s D Ha Ht).
Qed.

Lemma name_version_reports_profile_any_point s D :
  arrived_all (core s) -> timely c cfg term XTV_request D ->
  exists s',
    get_name_version_F cost cfg term flush_before s = (exp_name_version cfg p, s') /\
    pend (core s') = [] /\ attr s' = attr s /\
    written (core s') = written (core s) ++ [XTV_request] /\
    now (core s) <= now (core s') <= now (core s) + qtimeout cfg
      + c * (Z.of_nat (length (stream (term XTV_request))) + 4).
Proof.
  intros Ha Ht. rewrite get_name_version_F_before.
  exact (name_version_reports_profile_init cost c cost_bounded cfg Hen Hto p Hwf delays s D Ha Ht).
Qed.

Lemma cell_size_reports_profile_any_point c0 s D :
  cache_hit cfg c0 = false -> 0 < ws_cols cfg -> 0 < ws_rows cfg ->
  arrived_all (core s) -> timely c cfg term CELL_request D ->
  exists c1 s',
    get_cell_size_F cost cfg term flush_before c0 s = (exp_cell cfg p, c1, s') /\
    pend (core s') = (if cell_query_needed cfg c0 then [] else pend (core s)) /\
    attr s' = attr s /\
    now (core s) <= now (core s') <= now (core s) + qtimeout cfg + 2 * c.
Proof.
  intros Hc Hcols Hrows Ha Ht. rewrite get_cell_size_F_before.
  exact (cell_size_reports_profile_init cost c cost_bounded cfg Hen Hto p Hwf delays c0 s D Hc Hcols Hrows Ha Ht).
Qed.

Lemma kitty_reports_profile_any_point s D1 D2 :
  arrived_all (core s) ->
  timely c cfg term XTV_request D1 -> timely c cfg term KITTY_request D2 ->
  exists s',
    kitty_is_supported_F cost cfg term flush_before (s, None)
    = (exp_kitty cfg p, (s', Some (exp_name_version cfg p))) /\
    pend (core s') = [] /\ attr s' = attr s /\
    now (core s) <= now (core s') <= now (core s) + 2 * qtimeout cfg
      + c * (Z.of_nat (length (stream (term XTV_request))) + 6).
Proof.
  intros Ha H1 H2. rewrite kitty_is_supported_F_before.
  exact (kitty_reports_profile_init cost c cost_bounded cfg Hen Hto p Hwf delays s D1 D2 Ha H1 H2).
Qed.

Lemma auto_reports_profile_any_point s D1 D2 :
  arrived_all (core s) ->
  timely c cfg term XTV_request D1 -> timely c cfg term KITTY_request D2 ->
  exists s',
    auto_image_class_F cost cfg term flush_before (s, None)
    = (Some (exp_auto cfg p), (s', Some (exp_name_version cfg p))) /\
    pend (core s') = [] /\ attr s' = attr s /\
    now (core s) <= now (core s') <= now (core s) + 2 * qtimeout cfg
      + c * (Z.of_nat (length (stream (term XTV_request))) + 6).
Proof.
  intros Ha H1 H2. rewrite auto_image_class_F_before.
  exact (auto_reports_profile_init cost c cost_bounded cfg Hen Hto p Hwf delays s D1 D2 Ha H1 H2).
Qed.

End AnyPoint.

(** the five statements as one (props/C12.v states them in one theorem) *)
Lemma getters_report_profile_any_point :
  forall cost c, (forall i, 0 <= cost i <= c) ->
    forall cfg, enabled cfg = true -> 0 < qtimeout cfg ->
    forall p, wf_profile p = true ->
    (forall delays s D,
      arrived_all (core s) -> timely c cfg (profile_terminal p delays) FGBG_request D ->
      exists s',
        get_fg_bg_F cost cfg (profile_terminal p delays) flush_before s = (Some (exp_fg_bg cfg p), s') /\
        pend (core s') = [] /\ attr s' = attr s /\
        written (core s') = written (core s) ++ [FGBG_request] /\
        now (core s) <= now (core s') <= now (core s) + qtimeout cfg
          + c * (Z.of_nat (length (stream (profile_terminal p delays FGBG_request))) + 4)) /\
    (forall delays s D,
      arrived_all (core s) -> timely c cfg (profile_terminal p delays) XTV_request D ->
      exists s',
        get_name_version_F cost cfg (profile_terminal p delays) flush_before s = (exp_name_version cfg p, s') /\
        pend (core s') = [] /\ attr s' = attr s /\
        written (core s') = written (core s) ++ [XTV_request] /\
        now (core s) <= now (core s') <= now (core s) + qtimeout cfg
          + c * (Z.of_nat (length (stream (profile_terminal p delays XTV_request))) + 4)) /\
    (forall delays c0 s D,
      cache_hit cfg c0 = false -> 0 < ws_cols cfg -> 0 < ws_rows cfg ->
      arrived_all (core s) -> timely c cfg (profile_terminal p delays) CELL_request D ->
      exists c1 s',
        get_cell_size_F cost cfg (profile_terminal p delays) flush_before c0 s = (exp_cell cfg p, c1, s') /\
        pend (core s') = (if cell_query_needed cfg c0 then [] else pend (core s)) /\
        attr s' = attr s /\
        now (core s) <= now (core s') <= now (core s) + qtimeout cfg + 2 * c) /\
    (forall delays s D1 D2,
      arrived_all (core s) ->
      timely c cfg (profile_terminal p delays) XTV_request D1 ->
      timely c cfg (profile_terminal p delays) KITTY_request D2 ->
      exists s',
        kitty_is_supported_F cost cfg (profile_terminal p delays) flush_before (s, None)
        = (exp_kitty cfg p, (s', Some (exp_name_version cfg p))) /\
        pend (core s') = [] /\ attr s' = attr s /\
        now (core s) <= now (core s') <= now (core s) + 2 * qtimeout cfg
          + c * (Z.of_nat (length (stream (profile_terminal p delays XTV_request))) + 6)) /\
    (forall delays s D1 D2,
      arrived_all (core s) ->
      timely c cfg (profile_terminal p delays) XTV_request D1 ->
      timely c cfg (profile_terminal p delays) KITTY_request D2 ->
      exists s',
        auto_image_class_F cost cfg (profile_terminal p delays) flush_before (s, None)
        = (Some (exp_auto cfg p), (s', Some (exp_name_version cfg p))) /\
        pend (core s') = [] /\ attr s' = attr s /\
        now (core s) <= now (core s') <= now (core s) + 2 * qtimeout cfg
          + c * (Z.of_nat (length (stream (profile_terminal p delays XTV_request))) + 6)).
Proof.
  intros cost c Hc cfg Hen Hto p Hwf. repeat split.
  - intros; eapply fg_bg_reports_profile_any_point; eauto.
  - intros; eapply name_version_reports_profile_any_point; eauto.
  - intros; eapply cell_size_reports_profile_any_point; eauto.
  - intros; eapply kitty_reports_profile_any_point; eauto.
  - intros; eapply auto_reports_profile_any_point; eauto.
Qed.

(** ** the excluded order: discard AFTER the write *)
Section AfterWrite.
Variable cost : nat -> Z.
Variable cfg : config.
Variable term : terminal.

Lemma insert_Forall (P : Z * Z -> Prop) a : forall l, P a -> Forall P l -> Forall P (insert a l).
Proof.
  induction l as [|x r IH]; intros Ha Hl; cbn [insert]; [repeat constructor; assumption|].
  inversion Hl; subst. destruct (fst x <=? fst a); constructor; auto.
Qed.

Lemma merge_Forall (P : Z * Z -> Prop) new : forall old,
  Forall P old -> Forall P new -> Forall P (merge old new).
Proof.
  unfold merge. induction new as [|a new IH]; intros old Ho Hn; cbn [fold_left]; [assumption|].
  inversion Hn; subst. apply IH; [apply insert_Forall|]; assumption.
Qed.

Lemma filter_none {A} (f : A -> bool) (l : list A) :
  Forall (fun a => f a = false) l -> filter f l = [].
Proof. induction 1 as [|a l Ha _ IH]; cbn [filter]; [reflexivity|]. now rewrite Ha. Qed.

Lemma read_loop_nothing more timeout i t :
  0 < timeout -> more [] = true ->
  read_loop cost more timeout [] i t t [] = ([], [], t + timeout + cost i, S i).
Proof.
  intros Hto Hm. cbn [read_loop]. rewrite Z.sub_diag, Hm.
  replace (0 <? timeout) with true by (symmetry; apply Z.ltb_lt; lia). reflexivity.
Qed.

(** Every reply that arrives in the window between the write and the flush — at the instant
    write_tty() returns (delay 0) or during the flush step — is discarded with the unread
    input: the query comes back EMPTY after the whole timeout although the terminal answered
    correctly and at once; the attribute set is restored, nothing is left. *)
Lemma flush_after_write_loses_window more request s :
  (forall i, 0 <= cost i) -> enabled cfg = true -> 0 < qtimeout cfg -> more [] = true ->
  arrived_all (core s) ->
  Forall (fun u => fst u <= cost (S (tick (core s)))) (term request) ->
  exists s',
    query_F cost cfg term flush_after_write more request s = (Some [], s') /\
    pend (core s') = [] /\ attr s' = attr s /\
    written (core s') = written (core s) ++ [request] /\
    now (core s') = now (core s) + cost (tick (core s)) + cost (S (tick (core s))) + qtimeout cfg
                    + cost (S (S (tick (core s)))).
Proof.
  intros Hc Hen Hto Hm Ha Hw. destruct s as [st a]. cbn [core attr] in *.
  unfold query_F. rewrite Hen. cbn [negb].
  unfold tcflush_A, write_A, timed_read_A, tcsetattr, with_core, flush_input.
  cbn [core attr now pend tick written].
  set (t_w := now st + cost (tick st)).
  set (t_f := t_w + cost (S (tick st))).
  assert (Hnone : filter (fun x => t_f <? fst x)
                    (merge (pend st) (flatten (shift t_w (term request)))) = []).
  { apply filter_none. apply merge_Forall.
    - eapply Forall_impl; [|exact Ha]. cbn. intros x Hx. apply Z.ltb_ge.
      pose proof (Hc (tick st)). pose proof (Hc (S (tick st))). unfold t_f, t_w. lia.
    - apply Forall_forall. intros x Hx. unfold flatten in Hx. apply in_flat_map in Hx.
      destruct Hx as [u [Hu Hx]]. apply in_map_iff in Hx. destruct Hx as [b [<- _]]. cbn [fst].
      unfold shift in Hu. apply in_map_iff in Hu. destruct Hu as [u0 [<- Hu0]]. cbn [fst].
      rewrite Forall_forall in Hw. specialize (Hw u0 Hu0). apply Z.ltb_ge. unfold t_f. lia. }
  rewrite Hnone. rewrite read_loop_nothing by assumption.
  eexists. split; [reflexivity|]. cbn [core attr now pend tick written].
  repeat split.
Qed.

End AfterWrite.

(** non-vacuity + refutation on the concrete terminal of QueryEndProofs ([ex_profile]: kitty
    0.26.5 answering every query; [ex_delays]: the first reply at the instant the write returns,
    the second one tick later — both inside the window when the flush step costs one tick) *)
Example ex_replies_in_window :
  Forall (fun u => 0 <= fst u <= 1) (profile_terminal ex_profile ex_delays XTV_request) /\
  profile_terminal ex_profile ex_delays XTV_request <> [].
Proof. split; [vm_compute; repeat constructor; discriminate|vm_compute; discriminate]. Qed.

(** the code (discard, then write): the profile's answers, nothing unread *)
Example ex_flush_before_answers :
  let term := profile_terminal ex_profile ex_delays in
  let s := ttyA_init cooked [] in
  fst (get_name_version_F (fun _ => 1) ex_cfg term flush_before s) = exp_name_version ex_cfg ex_profile /\
  pend (core (snd (get_name_version_F (fun _ => 1) ex_cfg term flush_before s))) = [] /\
  fst (fst (get_cell_size_F (fun _ => 1) ex_cfg term flush_before (0, 0, 0, 0) s)) = exp_cell ex_cfg ex_profile /\
  fst (auto_image_class_F (fun _ => 1) ex_cfg term flush_before (s, None)) = Some Kitty.
Proof. repeat split; vm_compute; reflexivity. Qed.

(** the excluded order, same terminal, same (correct, immediate) replies: every getter reports
    its fall-back *)
Example flush_after_write_refuted :
  let term := profile_terminal ex_profile ex_delays in
  let s := ttyA_init cooked [] in
  fst (get_name_version_F (fun _ => 1) ex_cfg term flush_after_write s) = (None, None) /\
  exp_name_version ex_cfg ex_profile = (Some (bs "kitty"), Some (bs "0.26.5")) /\
  fst (get_fg_bg_F (fun _ => 1) ex_cfg term flush_after_write s) = Some (None, None) /\
  fst (get_fg_bg_F (fun _ => 1) ex_cfg term flush_before s) = Some (exp_fg_bg ex_cfg ex_profile) /\
  fst (fst (get_cell_size_F (fun _ => 1) ex_cfg term flush_after_write (0, 0, 0, 0) s)) = CsNone /\
  exp_cell ex_cfg ex_profile = CsSize 10 20 /\
  fst (kitty_is_supported_F (fun _ => 1) ex_cfg term flush_after_write (s, None)) = false /\
  exp_kitty ex_cfg ex_profile = true /\
  fst (auto_image_class_F (fun _ => 1) ex_cfg term flush_after_write (s, None)) = Some Block /\
  exp_auto ex_cfg ex_profile = Kitty.
Proof. repeat split; vm_compute; reflexivity. Qed.

(** the refutation as a statement: a well-formed profile, every reply timely AND inside the
    window between the write and the flush — the excluded order does not report what the
    terminal said, the code does *)
Lemma flush_after_write_refuted_exists :
  exists cfg p delays D,
    enabled cfg = true /\ 0 < qtimeout cfg /\ wf_profile p = true /\
    timely 1 cfg (profile_terminal p delays) XTV_request D /\
    Forall (fun u => 0 <= fst u <= 1) (profile_terminal p delays XTV_request) /\
    fst (get_name_version_F (fun _ => 1) cfg (profile_terminal p delays) flush_after_write (ttyA_init cooked []))
      <> exp_name_version cfg p /\
    fst (get_name_version_F (fun _ => 1) cfg (profile_terminal p delays) flush_before (ttyA_init cooked []))
      = exp_name_version cfg p.
Proof.
  exists ex_cfg, ex_profile, ex_delays, 3.
  split; [reflexivity|]. split; [reflexivity|]. split; [vm_compute; reflexivity|].
  split; [apply ex_timely; cbn; auto|]. split; [apply ex_replies_in_window|].
  split; [vm_compute; discriminate|vm_compute; reflexivity].
Qed.
