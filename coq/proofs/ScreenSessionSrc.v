(** C18 — "images are cleared on start, stop and clear" on the CURRENT source.

    gen/ScreenSkel.v ([sk_start], [sk_stop], [sk_clear]) holds the call skeletons of
    UrwidImageScreen._start / _stop / clear translated by harness/tx/tx_screen.py on every run.
    Here:
    - every path of the three skeletons makes the calls in the order the model
      (model/ScreenSession.v [start_session], [stop_session], model/Screen.v [clear_stream])
      assumes, whatever the conditions of the source ([source_paths_ok], by computation on the
      translated skeletons: a clear_images() guarded by a condition fails it);
    - what that order means on the two-buffer terminal, for ANY trace satisfying it and any
      output of the base class' method ([start_trace_clears], [stop_trace_clears],
      [clear_trace_clears]). *)
From Coq Require Import List ZArith Bool Lia Arith.
Import ListNotations.
From TI Require Import lib.Term model.Screen model.ScreenSession model.ScreenCalls gen.ScreenSkel
  proofs.ScreenGhost proofs.ScreenSessionProofs.

Lemma source_paths_ok :
  all_paths start_ok sk_start = true /\ all_paths stop_ok sk_stop = true /\ all_paths clear_ok sk_clear = true.
Proof. vm_compute. repeat split; reflexivity. Qed.

(** non-vacuity: the analysis rejects the guarded variants and a wrong order *)
Example source_analysis_rejects :
  all_paths start_ok (psq [PCall CBase; PIf (PCall CClearAll) PSkip; PRet]) = false     (* cleared only under a condition *)
  /\ all_paths start_ok (psq [PCall CClearAll; PCall CBase; PRet]) = false              (* cleared before the buffer is shown *)
  /\ all_paths start_ok (psq [PIf PRet PSkip; PCall CBase; PCall CClearAll]) = false    (* early return *)
  /\ all_paths stop_ok (psq [PIf (PCall CClearAll) PSkip; PCall CBase; PRet]) = false
  /\ all_paths stop_ok (psq [PCall CBase; PCall CClearAll; PRet]) = false               (* cleared after the buffer is left *)
  /\ all_paths clear_ok (psq [PIf (PCall CClearAll) PSkip; PCall CBase; PRet]) = false
  /\ all_paths start_ok (psq [PCall CBase; PIf (PCall CCall) PSkip; PCall CClearAll; PRet]) = true.
Proof. vm_compute. repeat split; reflexivity. Qed.

(** *** what the call orders mean on the terminal *)

(** the stream of a trace: [base] is what the base class' method writes, [other] what any
    other call writes *)
Definition call_toks (base : list btok) (other : list stok) (c : scall) : list btok :=
  match c with CBase => base | CClearAll => [BT (KDel DelAll)] | CCall => map BT other end.
Definition trace_toks (base : list btok) (other : list stok) (t : list scall) : list btok :=
  flat_map (call_toks base other) t.

Lemma bexec_BT_alt : forall k ts t, b_alt (bexec k t (map BT ts)) = b_alt t.
Proof. intros. rewrite bexec_BT. reflexivity. Qed.

Lemma bexec_other_keeps : forall k other t, forallb no_place other = true ->
  vis_plcs t = [] -> vis_plcs (bexec k t (map BT other)) = [].
Proof.
  intros k other t Hn He. rewrite bexec_BT. unfold vis_plcs in *. cbn [b_vis].
  apply pexec_no_place_empty; assumption.
Qed.

(** _start: whatever the base class' _start writes (it may switch buffers), every trace in
    which clear_images() follows its last call ends with nothing in view *)
Lemma start_trace_from : forall k base other t seen cleared term,
  forallb no_place other = true ->
  (cleared = true -> vis_plcs term = []) ->
  start_ok_from seen cleared t = true ->
  vis_plcs (bexec k term (trace_toks base other t)) = [].
Proof.
  induction t as [|c t IH]; intros seen cleared term Hn Hc Hok.
  - simpl in Hok. apply andb_true_iff in Hok. destruct Hok as [_ Hcl]. simpl. apply Hc. exact Hcl.
  - unfold trace_toks. cbn [flat_map]. rewrite bexec_app. fold (trace_toks base other t).
    destruct c; cbn [call_toks start_ok_from] in *.
    + apply (IH true false); [exact Hn| discriminate | exact Hok].
    + apply (IH seen true); [exact Hn| | exact Hok]. intros _. reflexivity.
    + apply (IH seen cleared); [exact Hn| | exact Hok]. intros Hcl. apply bexec_other_keeps; [exact Hn|].
      apply Hc. exact Hcl.
Qed.

Lemma start_trace_clears : forall k base other t term,
  forallb no_place other = true -> start_ok t = true ->
  vis_plcs (bexec k term (trace_toks base other t)) = [].
Proof.
  intros k base other t term Hn Hok. apply (start_trace_from k base other t false false); [exact Hn|discriminate|exact Hok].
Qed.

(** leaving a buffer that holds no placement *)
Lemma leave_clears : forall k (mode : bool) i1 i2 t0,
  vis_plcs t0 = [] -> forallb no_place i1 = true -> forallb no_place i2 = true ->
  buf_plcs (b_alt t0) (bexec k t0 (map BT i1 ++ (if mode then [BAltOff] else []) ++ map BT i2)) = [].
Proof.
  intros k mode i1 i2 t0 He H1 H2. rewrite bexec_app, bexec_BT.
  assert (E1 : t_plcs (pexec k (b_vis t0) i1) = []) by (apply pexec_no_place_empty; assumption).
  set (v1 := pexec k (b_vis t0) i1) in *. rewrite bexec_app.
  destruct mode; destruct (b_alt t0) eqn:Ea.
  - cbn [bexec fold_left bstep b_alt b_vis b_hid b_sav]. rewrite bexec_BT. cbn [b_alt b_hid].
    unfold buf_plcs, alt_plcs. cbn [b_alt b_hid]. exact E1.
  - cbn [bexec fold_left bstep b_alt b_vis b_hid b_sav]. rewrite bexec_BT.
    unfold buf_plcs, main_plcs. cbn [b_alt b_vis]. apply pexec_no_place_empty; [exact H2|exact E1].
  - cbn [bexec fold_left]. rewrite bexec_BT. unfold buf_plcs, alt_plcs. cbn [b_alt b_vis].
    apply pexec_no_place_empty; [exact H2|exact E1].
  - cbn [bexec fold_left]. rewrite bexec_BT. unfold buf_plcs, main_plcs. cbn [b_alt b_vis].
    apply pexec_no_place_empty; [exact H2|exact E1].
Qed.

(** _stop: the base class' _stop writes [i1] (its own clear() included), leaves the alternate
    buffer iff the screen was started with it, writes [i2]; every trace in which
    clear_images() precedes it leaves nothing on the buffer the screen ran on *)
Definition base_stop_toks (mode : bool) (i1 i2 : list stok) : list btok :=
  map BT i1 ++ (if mode then [BAltOff] else []) ++ map BT i2.

Lemma stop_trace_from : forall k mode i1 i2 other t cleared term,
  forallb no_place other = true -> forallb no_place i1 = true -> forallb no_place i2 = true ->
  (cleared = true -> vis_plcs term = []) ->
  stop_ok_from cleared t = true ->
  buf_plcs (b_alt term) (bexec k term (trace_toks (base_stop_toks mode i1 i2) other t)) = [].
Proof.
  induction t as [|c t IH]; intros cleared term Hn H1 H2 Hc Hok; [discriminate|].
  unfold trace_toks. cbn [flat_map]. fold (trace_toks (base_stop_toks mode i1 i2) other t).
  destruct c; cbn [call_toks stop_ok_from] in *.
  - apply andb_true_iff in Hok. destruct Hok as [Hcl Hr]. destruct t; [|discriminate].
    cbn [trace_toks flat_map]. rewrite app_nil_r. apply leave_clears; auto.
  - rewrite bexec_app.
    replace (b_alt term) with (b_alt (bexec k term [BT (KDel DelAll)])) by reflexivity.
    apply (IH true); auto.
  - rewrite bexec_app. rewrite <- (bexec_BT_alt k other term).
    apply (IH cleared); auto. intros Hcl. apply bexec_other_keeps; [exact Hn|]. apply Hc. exact Hcl.
Qed.

Lemma stop_trace_clears : forall k mode i1 i2 other t term,
  forallb no_place other = true -> forallb no_place i1 = true -> forallb no_place i2 = true ->
  stop_ok t = true ->
  buf_plcs (b_alt term) (bexec k term (trace_toks (base_stop_toks mode i1 i2) other t)) = [].
Proof.
  intros. apply (stop_trace_from k mode i1 i2 other t false); auto. discriminate.
Qed.

(** clear: the base class' clear() writes nothing that places an image ([binner]); a trace
    with a clear_images() ends with nothing in view *)
Lemma clear_trace_from : forall k binner other t cleared term,
  forallb no_place other = true -> forallb no_place binner = true ->
  (cleared = true -> vis_plcs term = []) ->
  cleared || existsb is_clear_all t = true ->
  vis_plcs (bexec k term (trace_toks (map BT binner) other t)) = [].
Proof.
  induction t as [|c t IH]; intros cleared term Hn Hb Hc Hok.
  - simpl in Hok. rewrite orb_false_r in Hok. simpl. apply Hc. exact Hok.
  - unfold trace_toks. cbn [flat_map]. rewrite bexec_app. fold (trace_toks (map BT binner) other t).
    destruct c; cbn [call_toks existsb is_clear_all] in *.
    + apply (IH cleared); auto. intros Hcl. apply bexec_other_keeps; [exact Hb|]. apply Hc. exact Hcl.
    + apply (IH true); auto.
    + apply (IH cleared); auto. intros Hcl. apply bexec_other_keeps; [exact Hn|]. apply Hc. exact Hcl.
Qed.

Lemma clear_trace_clears : forall k binner other t term,
  forallb no_place other = true -> forallb no_place binner = true -> clear_ok t = true ->
  vis_plcs (bexec k term (trace_toks (map BT binner) other t)) = [].
Proof.
  intros k binner other t term Hn Hb Hok. unfold clear_ok in Hok. apply andb_true_iff in Hok. destruct Hok as [Hc _].
  apply (clear_trace_from k binner other t false); auto. discriminate.
Qed.

(** together: along EVERY path of the current source of _start / _stop / clear (no call
    raising), for any terminal, any output of urwid's methods and of the other calls that
    places no image: nothing in view after _start and clear, nothing on the buffer the
    screen ran on after _stop *)
Lemma source_cleared_lemma : forall k term other,
  forallb no_place other = true ->
  (forall base t, In t (traces sk_start) -> vis_plcs (bexec k term (trace_toks base other t)) = [])
  /\ (forall mode i1 i2 t, forallb no_place i1 = true -> forallb no_place i2 = true -> In t (traces sk_stop) ->
        buf_plcs (b_alt term) (bexec k term (trace_toks (base_stop_toks mode i1 i2) other t)) = [])
  /\ (forall binner t, forallb no_place binner = true -> In t (traces sk_clear) ->
        vis_plcs (bexec k term (trace_toks (map BT binner) other t)) = [])
  /\ traces sk_start <> [] /\ traces sk_stop <> [] /\ traces sk_clear <> [].
Proof.
  intros k term other Hn. destruct source_paths_ok as [Hs [Hp Hc]].
  unfold all_paths in *. apply andb_true_iff in Hs, Hp, Hc.
  destruct Hs as [Hs Hs'], Hp as [Hp Hp'], Hc as [Hc Hc'].
  rewrite forallb_forall in Hs, Hp, Hc.
  split; [|split; [|split; [|split; [|split]]]].
  - intros base t Hin. apply start_trace_clears; auto.
  - intros mode i1 i2 t H1 H2 Hin. apply stop_trace_clears; auto.
  - intros binner t Hb Hin. apply clear_trace_clears; auto.
  - intro E. rewrite E in Hs'. discriminate.
  - intro E. rewrite E in Hp'. discriminate.
  - intro E. rewrite E in Hc'. discriminate.
Qed.
