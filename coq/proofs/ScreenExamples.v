(** C18 — non-vacuity of [no_ghosts] and sensitivity to the two defects fixed by
    pending_fixes/C18_*.diff (the model of the code BEFORE the fixes is refuted on the
    inputs that the correspondence found on the real code). *)
From Coq Require Import List ZArith Bool Lia Arith.
Import ListNotations.
From TI Require Import lib.Term model.Screen model.ScreenUrwid proofs.ScreenGhost.

(** a 20 x 10 screen filled by one kitty image widget (canvas 1, widget 0, z = 1) under an
    overlay 6 columns wide at column 5, growing from 3 to 4 rows: the image canvas is seen
    through three views (left of, right of, below the overlay) *)
Definition kcanv : canvinfo := mk_canv 1 (CImage 0 (WKitty 1)).
Definition frame1 : list view := [mk_view kcanv 1 1 0 0 5 3; mk_view kcanv 1 12 11 0 9 3; mk_view kcanv 4 1 0 3 20 7].
Definition frame2 : list view := [mk_view kcanv 1 1 0 0 5 4; mk_view kcanv 1 12 11 0 9 4; mk_view kcanv 5 1 0 4 20 6].

(** the canvas is 20 columns wide; a horizontally trimmed view shows blanks
    (UrwidImageCanvas.content :397-400), an untrimmed one its rows *)
Definition ex_lines (v : view) : list (Z * Z * Z) :=
  if Nat.eqb (v_tl v) 0 && Nat.eqb (v_cols v) 20
  then map (fun k => (Z.of_nat (v_row v - 1 + k), Z.of_nat (v_col v - 1), 20%Z)) (seq 0 (v_rows v))
  else [].
Definition ex_kittyw (w : nat) : bool := Nat.eqb w 0.
Definition base0 (y : Z) : Z := 0%Z.
Definition base1 (y : Z) : Z := if Z.ltb y 4 then 1%Z else 0%Z.   (* the overlay's rows changed *)

Definition ex_ops : list sop := [ORedraw frame1 base0; ORedraw frame2 base1].

Ltac in_cases H := simpl in H; repeat (destruct H as [<-|H]); try contradiction.

Lemma ex_wf1 : wf_redraw 10 false ex_lines ex_kittyw [] frame1.
Proof.
  constructor.
  - intros v Hin. in_cases Hin; reflexivity.
  - intros v Hin. in_cases Hin; reflexivity.
  - intros v1 v2 H1 H2 _ _. in_cases H1; in_cases H2; split; reflexivity.
  - intros v Hin _. in_cases Hin; discriminate.
  - intros p Hin. vm_compute in Hin. in_cases Hin; vm_compute; tauto.
  - intros p q Hp Hq Hne. vm_compute in Hp, Hq. in_cases Hp; in_cases Hq; try reflexivity; congruence.
Qed.

Lemma ex_wf2 : wf_redraw 10 false ex_lines ex_kittyw frame1 frame2.
Proof.
  constructor.
  - intros v Hin. in_cases Hin; reflexivity.
  - intros v Hin. in_cases Hin; reflexivity.
  - intros v1 v2 H1 H2 _ _. in_cases H1; in_cases H2; split; reflexivity.
  - intros v Hin _. in_cases Hin; discriminate.
  - intros p Hin. vm_compute in Hin. in_cases Hin; vm_compute; tauto.
  - intros p q Hp Hq Hne. vm_compute in Hp, Hq. in_cases Hp; in_cases Hq; try reflexivity; congruence.
Qed.

(** the hypotheses of [no_ghosts] hold on this sequence ... *)
Example ex_ops_wf : ops_wf 10 false ex_lines ex_kittyw world_init ex_ops.
Proof.
  simpl. split; [split; [exact ex_wf1|intro Hn; exfalso; apply Hn; reflexivity]|]. split; [|exact I].
  split; [exact ex_wf2|]. exact (count_ok_after_redraw 10 false ex_lines world_init frame1 base0 frame2).
Qed.

(** ... and the run is what one expects: three views vanish, ONE delete by z-index, one
    disguise bump, the six remaining image rows are on the terminal *)
Example ex_run :
  let w := run 10 false true ex_lines ex_ops world_init in
  plcs_same (t_plcs (w_term w)) (plcs_of ex_lines frame2) = true
  /\ length (plcs_of ex_lines frame2) = 6
  /\ wdis_get 0 (s_wdis (w_scr w)) = 1
  /\ fst (update_views true frame2 (w_scr (run 10 false true ex_lines [ORedraw frame1 base0] world_init)))
     = [KDel (DelZ 1)].
Proof. vm_compute. repeat split; reflexivity. Qed.

(** *** the code before the fixes *)

(** :672-684 before the fix: the widget is appended once per vanished view *)
Definition update_views_unfixed (new : list view) (s : scr) : list stok * scr :=
  let diff := filter (fun v => negb (view_mem v new)) (s_prev s) in
  let '(out, s1) :=
    if existsb (fun v => negb (is_kitty (v_kind v))) diff then clear_images_all true s
    else match diff with
         | [] => ([], s)
         | _ => clear_images_widgets true (map (fun v => (v_wid v, v_kind v)) diff) s
         end in
  (out, mk_scr new (s_cdis s1) (s_wdis s1) (s_canv s1)).

Definition step_unfixed (w : world) (o : sop) : world :=
  match o with
  | ORedraw V base =>
    let ds := update_views_unfixed V (w_scr w) in
    let new := render_row ex_lines (snd ds) V base in
    mk_world (snd ds) (Some new)
             (pexec false (w_term w) ([KSyncB] ++ fst ds ++ urwid_draw 10 false (w_sb w) new ++ [KSyncE]))
             [] (snd ds) 0 []
  | _ => w
  end.

(** three vanished views = three bumps = the same disguise: the image's rows are deleted
    (three times) and never written again: the terminal shows NO image line although the
    canvas has six *)
Example no_ghosts_refuted_before_fix :
  let w := fold_left step_unfixed ex_ops world_init in
  ops_wf 10 false ex_lines ex_kittyw world_init ex_ops
  /\ t_plcs (w_term w) = []
  /\ length (plcs_of ex_lines frame2) = 6
  /\ wdis_get 0 (s_wdis (w_scr w)) = 0.
Proof. split; [exact ex_ops_wf|]. vm_compute. repeat split; reflexivity. Qed.

(** *** the public clear_images() API *)

(** clear_images(now=True) between two redraws of a canvas whose image is untouched: the
    delete-all goes to the terminal at once, the canvas disguise changes, so every image row
    is written again; the same with the queued form and with clear_images(widget) *)
Definition frame1b : list view := frame1.
Definition wd0 : list (nat * wkind) := [(0, WKitty 1)].
Lemma ex_wf11 : wf_redraw 10 false ex_lines ex_kittyw frame1 frame1.
Proof.
  constructor.
  - intros v Hin. in_cases Hin; reflexivity.
  - intros v Hin. in_cases Hin; reflexivity.
  - intros v1 v2 H1 H2 _ _. in_cases H1; in_cases H2; split; reflexivity.
  - intros v Hin _. in_cases Hin; discriminate.
  - intros p Hin. vm_compute in Hin. in_cases Hin; vm_compute; tauto.
  - intros p q Hp Hq Hne. vm_compute in Hp, Hq. in_cases Hp; in_cases Hq; try reflexivity; congruence.
Qed.
Lemma ex_wf_api : wf_api false ex_kittyw frame1 wd0.
Proof.
  constructor.
  - intros x Hin. in_cases Hin; reflexivity.
  - intros x Hin _. in_cases Hin; discriminate.
  - intros x v Hx Hv _ _. in_cases Hx; in_cases Hv; split; reflexivity.
  - intros v Hin. in_cases Hin; reflexivity.
Qed.
Lemma ex_wf_api0 : wf_api false ex_kittyw frame1 [].
Proof.
  constructor.
  - intros x Hin. destruct Hin.
  - intros x Hin. destruct Hin.
  - intros x v Hin. destruct Hin.
  - intros v Hin. in_cases Hin; reflexivity.
Qed.
Example ex_api_wf : forall now,
  ops_wf 10 false ex_lines ex_kittyw world_init [ORedraw frame1 base0; OApi [] now; ORedraw frame1 base1]
  /\ ops_wf 10 false ex_lines ex_kittyw world_init [ORedraw frame1 base0; OApi wd0 now; ORedraw frame1 base1].
Proof.
  intro now. destruct now; split.
  - simpl. split; [split; [exact ex_wf1|intro Hn; exfalso; apply Hn; reflexivity]|].
    split; [exact ex_wf_api0|]. split; [|exact I]. split; [exact ex_wf11|].
    apply (count_ok_after_one_api 10 false ex_lines ex_kittyw world_init frame1 base0 [] true frame1). constructor.
  - simpl. split; [split; [exact ex_wf1|intro Hn; exfalso; apply Hn; reflexivity]|].
    split; [exact ex_wf_api|]. split; [|exact I]. split; [exact ex_wf11|].
    apply (count_ok_after_one_api 10 false ex_lines ex_kittyw world_init frame1 base0 wd0 true frame1). repeat constructor. simpl. tauto.
  - simpl. split; [split; [exact ex_wf1|intro Hn; exfalso; apply Hn; reflexivity]|].
    split; [exact ex_wf_api0|]. split; [|exact I]. split; [exact ex_wf11|].
    apply (count_ok_after_one_api 10 false ex_lines ex_kittyw world_init frame1 base0 [] false frame1). constructor.
  - simpl. split; [split; [exact ex_wf1|intro Hn; exfalso; apply Hn; reflexivity]|].
    split; [exact ex_wf_api|]. split; [|exact I]. split; [exact ex_wf11|].
    apply (count_ok_after_one_api 10 false ex_lines ex_kittyw world_init frame1 base0 wd0 false frame1). repeat constructor. simpl. tauto.
Qed.
Example ex_api_run :
  forallb (fun now =>
    forallb (fun ws =>
      let w := run 10 false true ex_lines [ORedraw frame1 base0; OApi ws now; ORedraw frame1 base1] world_init in
      plcs_same (t_plcs (w_term w)) (plcs_of ex_lines frame1)) [[]; wd0]) [true; false] = true
  /\ length (plcs_of ex_lines frame1) = 7.
Proof. vm_compute. split; reflexivity. Qed.

(** the count hypothesis of [no_ghosts] cannot be dropped: the disguise has THREE states, so
    three clear_images() between two redraws (or clear_images(w) and two clear_images())
    delete every image and leave every row's bytes as they were: nothing is written again
    (observed on the real code as well) *)
Example no_ghosts_needs_count_hypothesis :
  let w3 := run 10 false true ex_lines
              [ORedraw frame1 base0; OApi [] false; OApi [] true; OApi [] false; ORedraw frame1 base0] world_init in
  let w12 := run 10 false true ex_lines
              [OClear; ORedraw frame1 base0; OApi wd0 false; OApi [] true; OApi [] false; ORedraw frame1 base0] world_init in
  t_plcs (w_term w3) = [] /\ t_plcs (w_term w12) = [] /\ length (plcs_of ex_lines frame1) = 7.
Proof. vm_compute. repeat split; reflexivity. Qed.

(** :626-630 before the fix: a canvas that is not a CompositeCanvas is not walked: an
    image canvas drawn as the top-most widget is not remembered, so that nothing deletes it
    when the next canvas no longer shows it.  With the fix the walk sees it: *)
Example single_canvas_is_walked :
  ti_clear_images 5 true false false (Single kcanv 20 10) scr_init
  = Some ([], mk_scr [mk_view kcanv 1 1 0 0 20 10] 0 [] None).
Proof. vm_compute. reflexivity. Qed.
Example single_canvas_then_text_deletes :
  match ti_clear_images 5 true false false (Single kcanv 20 10) scr_init with
  | Some (_, s) => option_map fst (ti_clear_images 5 true false false (Single (mk_canv 2 CPlain) 20 10) s)
  | None => None
  end = Some [KDel (DelZ 1)].
Proof. vm_compute. reflexivity. Qed.
