(** C19, round 8 — the pixel-exact denotation: proofs.

    [thr8_nearest], [thr8_unique]   the 8-bit threshold of the code (round-half-even of
                                    255 * num / den, from the decimal digits) is a nearest
                                    integer to the exact product, and THE nearest one unless
                                    the product is exactly k + 1/2;
    [impl_pixel_refines]            hence the code's pixel rule (alpha < T: transparent, else
                                    opaque over the backdrop) satisfies the exact documented
                                    rule for EVERY threshold, alpha level and observation;
    [trunc_invisible], [trunc_refuted]
                                    truncation coincides with it whenever the fractional part
                                    of the product is below 1/2 — and shows a pixel that lies
                                    strictly below the threshold '.999' as opaque;
    [verbatim_only_when_identity]   whenever the read-from-file gate of ITerm2Image sends the
                                    source file verbatim, the documented treatment leaves every
                                    pixel such a file can hold exactly as it is (all styles,
                                    alpha settings, sources, methods, policies);
    [notnone_gate_invisible], [notnone_gate_refuted]
                                    the gate "alpha is not None" is the code unless the source
                                    is a readable file WITH an alpha channel, read_from_file is
                                    on and the alpha setting is a colour — and then transmits a
                                    transparent pixel where the documentation demands the
                                    colour. *)
From Coq Require Import List Bool Arith NArith ZArith Lia.
Import ListNotations.
From TI Require Import model.FmtSpec model.FmtDen model.FmtDenPix.
Local Open Scope Z_scope.

(** * the threshold *)

Lemma thr8_nearest : forall num den, 0 < den -> level_ok (thr8 num den) num den = true.
Proof.
  intros num den Hd. unfold level_ok, thr8.
  pose proof (Z.div_mod (255 * num) den ltac:(lia)) as E.
  pose proof (Z.mod_pos_bound (255 * num) den Hd) as B.
  set (q := (255 * num) / den) in *. set (r := (255 * num) mod den) in *.
  apply Z.leb_le.
  assert (E2 : 510 * num = 2 * (den * q) + 2 * r) by lia.
  destruct (2 * r <? den) eqn:H1; [ apply Z.ltb_lt in H1 | apply Z.ltb_ge in H1 ].
  - replace (2 * q * den) with (2 * (den * q)) by ring. lia.
  - destruct (den <? 2 * r) eqn:H2; [ apply Z.ltb_lt in H2 | apply Z.ltb_ge in H2 ].
    + replace (2 * (q + 1) * den) with (2 * (den * q) + 2 * den) by ring. lia.
    + destruct (Z.even q).
      * replace (2 * q * den) with (2 * (den * q)) by ring. lia.
      * replace (2 * (q + 1) * den) with (2 * (den * q) + 2 * den) by ring. lia.
Qed.

Lemma thr8_unique : forall T num den,
  0 < den -> 2 * ((255 * num) mod den) <> den ->
  level_ok T num den = true -> T = thr8 num den.
Proof.
  intros T num den Hd Hn H. unfold level_ok in H. apply Z.leb_le in H. unfold thr8.
  pose proof (Z.div_mod (255 * num) den ltac:(lia)) as E.
  pose proof (Z.mod_pos_bound (255 * num) den Hd) as B.
  set (q := (255 * num) / den) in *. set (r := (255 * num) mod den) in *.
  assert (E2 : 510 * num = 2 * (den * q) + 2 * r) by lia.
  assert (K : 2 * T * den - 510 * num = 2 * den * (T - q) - 2 * r) by (rewrite E2; ring).
  rewrite K in H. clear K E E2.
  destruct (2 * r <? den) eqn:H1; [ apply Z.ltb_lt in H1 | apply Z.ltb_ge in H1 ].
  - (* -den <= 2 den (T-q) - 2r <= den, 0 <= 2r < den *)
    assert (T - q = 0); [ | lia ].
    assert (- den <= 2 * den * (T - q)) by lia.
    assert (2 * den * (T - q) < 2 * den) by lia.
    nia.
  - destruct (den <? 2 * r) eqn:H2; [ apply Z.ltb_lt in H2 | apply Z.ltb_ge in H2; lia ].
    assert (T - q = 1); [ | lia ].
    assert (0 < 2 * den * (T - q)) by lia.
    assert (2 * den * (T - q) < 3 * den) by lia.
    nia.
Qed.

Lemma pow10_pos : forall n, 0 < pow10 n.
Proof. intro n. unfold pow10. apply Z.pow_pos_nonneg; lia. Qed.

Definition eff_wf (e : eff) : Prop := match e with EThr _ den _ => 0 < den | _ => True end.

Lemma doc_eff_wf : forall t bg, eff_wf (doc_eff t bg).
Proof. intros [ | | ds | | c ] bg; simpl; try exact I; try lia. apply pow10_pos. Qed.

Lemma impl_pixel_refines_wf : forall e p o,
  eff_wf e -> impl_pixel thr8 e p o = true -> pixel_ok_x e p o = true.
Proof.
  intros [ | num den back | c ] p o Hw H; try exact H.
  simpl in Hw. unfold impl_pixel in H. unfold pixel_ok_x.
  pose proof (thr8_nearest num den Hw) as N. unfold level_ok in N. apply Z.leb_le in N.
  set (T := thr8 num den) in *. set (a := p_a p) in *.
  destruct (a <? T) eqn:HT; [ apply Z.ltb_lt in HT | apply Z.ltb_ge in HT ].
  - (* a <= T - 1: (2a+1) den <= (2T-1) den <= 510 num *)
    assert (L : (2 * a + 1) * den <= 510 * num) by nia.
    destruct ((2 * a + 1) * den <? 510 * num) eqn:H1; [ exact H | ].
    apply Z.ltb_ge in H1.
    assert (Heq : (2 * a + 1) * den = 510 * num) by lia.
    rewrite (proj2 (Z.eqb_eq _ _) Heq). destruct o; [ discriminate | reflexivity ].
  - assert (L : 510 * num <= (2 * a + 1) * den) by nia.
    destruct ((2 * a + 1) * den <? 510 * num) eqn:H1; [ apply Z.ltb_lt in H1; lia | ].
    destruct ((2 * a + 1) * den =? 510 * num); [ | exact H ].
    destruct o; [ exact H | discriminate ].
Qed.

Lemma impl_pixel_refines : forall t bg p o,
  impl_pixel thr8 (doc_eff t bg) p o = true -> pixel_ok_x (doc_eff t bg) p o = true.
Proof. intros. apply impl_pixel_refines_wf; [ apply doc_eff_wf | assumption ]. Qed.

(** the statement on the digits of the specifier *)
Lemma den_threshold_exact : forall ds,
  let num := int_of ds in let den := pow10 (length ds) in
  level_ok (thr8 num den) num den = true
  /\ (forall T, 2 * ((255 * num) mod den) <> den -> level_ok T num den = true -> T = thr8 num den).
Proof.
  intros ds num den. split.
  - apply thr8_nearest, pow10_pos.
  - intros T Hn H. apply thr8_unique; [ apply pow10_pos | exact Hn | exact H ].
Qed.

Lemma trunc_invisible : forall num den,
  2 * ((255 * num) mod den) < den -> trunc8 num den = thr8 num den.
Proof.
  intros num den H. unfold trunc8, thr8. apply Z.ltb_lt in H. rewrite H. reflexivity.
Qed.

Definition px_254 : px := {| p_r := 255; p_g := 0; p_b := 0; p_a := 254 |}.
Definition thr_999 : eff := doc_eff (TThreshold [57%N; 57%N; 57%N]) None.

Lemma trunc_refuted :
  trunc8 999 1000 = 254 /\ level_ok 254 999 1000 = false /\ thr8 999 1000 = 255
  /\ impl_pixel trunc8 thr_999 px_254 (Some (254, 0, 0)) = true      (* what truncation shows *)
  /\ pixel_ok_x thr_999 px_254 (Some (254, 0, 0)) = false            (* 254/255 < .999: not opaque *)
  /\ pixel_ok_x thr_999 px_254 None = true
  /\ impl_pixel thr8 thr_999 px_254 None = true.
Proof. repeat split; vm_compute; reflexivity. Qed.

(** non-vacuity: the exact rule at the levels around a threshold, both sides of 1/2, and a tie *)
Example pixel_ok_x_levels :
  let e3 := doc_eff (TThreshold [51%N; 50%N; 53%N; 48%N; 52%N; 51%N]) None in    (* .325043: 82.886 *)
  let e2 := doc_eff (TThreshold [50%N]) None in                                   (* .2: 51.0 *)
  let e5 := doc_eff (TThreshold [53%N]) None in                                   (* .5: 127.5, a tie *)
  let p a := {| p_r := 255; p_g := 0; p_b := 0; p_a := a |} in
  pixel_ok_x e3 (p 82) None = true /\ pixel_ok_x e3 (p 82) (Some (82, 0, 0)) = false
  /\ pixel_ok_x e3 (p 83) (Some (83, 0, 0)) = true /\ pixel_ok_x e3 (p 83) None = false
  /\ pixel_ok_x e2 (p 50) None = true /\ pixel_ok_x e2 (p 51) (Some (51, 0, 0)) = true
  /\ pixel_ok_x e2 (p 51) None = false
  /\ pixel_ok_x e5 (p 127) None = true /\ pixel_ok_x e5 (p 127) (Some (127, 0, 0)) = true
  /\ pixel_ok_x e5 (p 128) None = false /\ pixel_ok_x e5 (p 126) (Some (126, 0, 0)) = false
  /\ thr8 5 10 = 128 /\ thr8 3 10 = 76 /\ thr8 325043 1000000 = 83 /\ thr8 40 255 = 40.
Proof. repeat split; vm_compute; reflexivity. Qed.

(** * the read-from-file gate *)

Lemma verbatim_gate : forall gate sty a s method,
  impl_verbatim gate sty a s method = true -> sty = ITerm2 /\ gate a (g_mode s) = true.
Proof.
  intros gate sty a s method H. destruct sty; try discriminate. split; [ reflexivity | ].
  unfold impl_verbatim in H. apply andb_true_iff in H. exact (proj2 H).
Qed.

Lemma verbatim_identity : forall sty a s method bg,
  impl_verbatim code_gate sty a s method = true ->
  eff_identity (doc_eff (denote_alpha a) bg) (g_mode s) = true.
Proof.
  intros sty a s method bg H. apply verbatim_gate in H. destruct H as [ _ H ].
  unfold code_gate, mode_gate in H.
  destruct (g_mode s); try discriminate.
  - destruct a as [ | | t | t ]; try reflexivity.
    + destruct t as [ | x [ | y tl ] ]; reflexivity.
    + destruct t as [ | x ds ]; reflexivity.
  - destruct a as [ | | t | t ]; try discriminate; try reflexivity.
    destruct t as [ | x ds ]; reflexivity.
Qed.

Lemma blend_self : forall u c, gblend_ok u c 255 c = true.
Proof. intros. unfold gblend_ok. apply Z.leb_le. lia. Qed.

Lemma near_a_refl : forall x a, near_a x x a = true.
Proof. intros. unfold near_a. rewrite Z.eqb_refl. reflexivity. Qed.

Lemma near_refl : forall x, near x x = true.
Proof. intro. unfold near. apply Z.leb_le. lia. Qed.

Lemma identity_pixel_ok : forall e m p,
  eff_identity e m = true -> px_of_mode m p = true -> gpixel_ok e p (as_is p) = true.
Proof.
  intros e m [ r g b a ] Hi Hp. unfold as_is, gpixel_ok. cbn [p_r p_g p_b p_a] in *.
  destruct e as [ | num den back | c ].
  - destruct m; try discriminate. cbn in Hp. apply Z.eqb_eq in Hp. subst a.
    rewrite !near_refl. reflexivity.
  - rewrite Z.eqb_refl, !near_a_refl. cbn. apply orb_true_r.
  - destruct m; try discriminate. cbn in Hp. apply Z.eqb_eq in Hp. subst a.
    unfold gover_ok. cbn [p_r p_g p_b p_a]. rewrite !blend_self. reflexivity.
Qed.

Lemma verbatim_only_when_identity : forall sty a s method bg p,
  impl_verbatim code_gate sty a s method = true ->
  px_of_mode (g_mode s) p = true ->
  gpixel_ok (doc_eff (denote_alpha a) bg) p (as_is p) = true.
Proof.
  intros. eapply identity_pixel_ok; [ eapply verbatim_identity; eassumption | assumption ].
Qed.

(** the model of the code's transmitted pixel refines the documented one on the shortcut *)
Lemma impl_gpixel_verbatim_ok : forall sty bg a s method p o,
  impl_verbatim code_gate sty a s method = true ->
  px_of_mode (g_mode s) p = true ->
  impl_gpixel code_gate sty bg a s method p o = true ->
  gpixel_ok (doc_eff (denote_alpha a) bg) p o = true.
Proof.
  intros sty bg a s method p o Hv Hp H. unfold impl_gpixel in H. rewrite Hv in H.
  destruct o as [ [ [ r g ] b ] al ].
  apply andb_true_iff in H. destruct H as [ H Ha ].
  apply andb_true_iff in H. destruct H as [ H Hb ].
  apply andb_true_iff in H. destruct H as [ Hr Hg ].
  apply Z.eqb_eq in Hr, Hg, Hb, Ha. subst.
  exact (verbatim_only_when_identity sty a s method bg p Hv Hp).
Qed.

Definition is_str (a : alpha_raw) : bool := match a with RStr _ => true | _ => false end.

Lemma notnone_gate_invisible : forall sty a s method,
  g_rff s = false \/ g_readable s = false \/ g_mode s <> MAlpha \/ is_str a = false ->
  impl_verbatim notnone_gate sty a s method = impl_verbatim code_gate sty a s method.
Proof.
  intros sty a [ m an rd ft rf ] method H. destruct sty; try reflexivity.
  unfold impl_verbatim. cbn [g_rff g_animated g_readable g_fits g_mode] in *.
  destruct H as [ H | [ H | [ H | H ] ] ].
  - subst rf. reflexivity.
  - subst rd. rewrite !andb_false_r. reflexivity.
  - destruct m; try reflexivity. contradiction H. reflexivity.
  - destruct a; try discriminate; destruct m; reflexivity.
Qed.

Definition rgba_file : gsrc :=
  {| g_mode := MAlpha; g_animated := false; g_readable := true; g_fits := true; g_rff := true |}.
(** "#00ff00" *)
Definition a_green : alpha_raw := RStr [35%N; 48%N; 48%N; 102%N; 102%N; 48%N; 48%N].
Definition px_clear : px := {| p_r := 0; p_g := 0; p_b := 255; p_a := 0 |}.

Lemma notnone_gate_refuted :
  impl_verbatim notnone_gate ITerm2 a_green rgba_file 2 = true
  /\ impl_verbatim code_gate ITerm2 a_green rgba_file 2 = false
  /\ doc_eff (denote_alpha a_green) None = EUnder 65280
  /\ gpixel_ok (EUnder 65280) px_clear (as_is px_clear) = false       (* the file's pixel: transparent *)
  /\ gpixel_ok (EUnder 65280) px_clear (0, 255, 0, 255) = true        (* documented: the colour *)
  /\ impl_gpixel notnone_gate ITerm2 None a_green rgba_file 2 px_clear (as_is px_clear) = true
  /\ impl_gpixel code_gate ITerm2 None a_green rgba_file 2 px_clear (0, 255, 0, 255) = true.
Proof. repeat split; vm_compute; reflexivity. Qed.

(** non-vacuity of [verbatim_only_when_identity]: the shortcut IS taken (default threshold on
    an RGBA file; a colour on an RGB file) *)
Example verbatim_taken :
  impl_verbatim code_gate ITerm2 RDefault rgba_file 2 = true
  /\ impl_verbatim code_gate ITerm2 a_green
       {| g_mode := MOpaque; g_animated := false; g_readable := true; g_fits := true; g_rff := true |} 3 = true
  /\ impl_verbatim code_gate ITerm2 RDefault rgba_file 1 = false
  /\ impl_verbatim code_gate Kitty RDefault rgba_file 2 = false.
Proof. repeat split; reflexivity. Qed.
